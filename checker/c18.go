package main

// c18.go — C18: independent runners share no mutable state.

import (
	"go/token"
	"go/types"
	"sort"
	"strings"

	"golang.org/x/tools/go/ssa"
)

func init() {
	registry["C18"] = &propCheck{
		meta: propMeta{
			Level: "other",
			Explanation: "Two runners can only interfere through memory both can reach; module code can create such memory only through package-level variables. Decides: (R1) the inventory of package-level variables; (R2) no store, map update or write-through-a-callee reaches memory rooted at a package-level variable outside package initialisation and that variable's own sync.Once initialiser; " +
				"(R3) no mutable reference (map, slice, pointer, channel, interface) loaded from a package-level variable is stored into another object, captured by a closure or handed to a callee — so no per-runner structure aliases shared memory (exempt by type: *regexp.Regexp, reflect types, capture-free functions; exempt by name: the two generated recogniser constructors and the once-initialisers, which share ANTLR's read-only tables); " +
				"(R4) goroutine literals capture nothing mutable (same rule as C10.R5); " +
				"(R5) function values built once for the whole process — closures created in package initialisers, in sync.Once/OnceValue/OnceFunc initialisers and in the module functions those call — never store to or into a variable they captured (nor do closures nested in them that capture the same variables): a memo of converted functions is shared memory only through what its closures captured.",
			NotDecided:  "races inside the ANTLR runtime's shared DFA/prediction caches (trusted, assumption A3); trace equality under concurrency",
			Assumptions: []string{"A3", "A4 (global math/rand functions are goroutine-safe)", "A5"},
			Trusted:     []string{"go/types", "golang.org/x/tools/go/ssa", "go/packages loader"},
		},
		run: checkC18,
	}
}

// functions allowed to write globals: package initialisers and functions handed to (*sync.Once).Do, with their callees
func initOnlyFuncs(w *World) map[*ssa.Function]string {
	out := map[*ssa.Function]string{}
	var mark func(f *ssa.Function, why string)
	mark = func(f *ssa.Function, why string) {
		if f == nil || f.Blocks == nil || out[f] != "" {
			return
		}
		if !strings.HasPrefix(ssaFuncPkgPath(f), modPath) {
			return
		}
		out[f] = why
		for _, a := range f.AnonFuncs {
			mark(a, why)
		}
	}
	for _, f := range w.ModuleSSAFuncs() {
		if f.Name() == "init" || strings.HasPrefix(f.Name(), "init#") || f.Synthetic == "package initializer" {
			mark(f, "package initialisation")
		}
		for _, b := range f.Blocks {
			for _, in := range b.Instrs {
				call, ok := in.(ssa.CallInstruction)
				if !ok {
					continue
				}
				callee := call.Common().StaticCallee()
				if callee == nil || callee.String() != "(*sync.Once).Do" {
					continue
				}
				for _, a := range call.Common().Args[1:] {
					switch x := a.(type) {
					case *ssa.Function:
						mark(x, "sync.Once initialiser")
					case *ssa.MakeClosure:
						mark(x.Fn.(*ssa.Function), "sync.Once initialiser")
					}
				}
			}
		}
	}
	return out
}

func isModuleGlobal(g *ssa.Global) bool {
	return g != nil && g.Pkg != nil && strings.HasPrefix(g.Pkg.Pkg.Path(), modPath) && !strings.HasSuffix(g.Pkg.Pkg.Path(), "/internal/testutils")
}

// writesThroughParam: the callee may store through its i-th parameter (pointer) — one level of summary.
func writesThroughParam(f *ssa.Function, i int, depth int) bool {
	if f == nil || f.Blocks == nil || i >= len(f.Params) || depth > 3 {
		return f != nil && f.Blocks == nil && false
	}
	p := f.Params[i]
	for _, b := range f.Blocks {
		for _, in := range b.Instrs {
			switch x := in.(type) {
			case *ssa.Store:
				if derivesFromValue(x.Addr, p, 0) {
					return true
				}
			case *ssa.MapUpdate:
				if derivesFromValue(x.Map, p, 0) {
					return true
				}
			case ssa.CallInstruction:
				cc := x.Common()
				if callee := cc.StaticCallee(); callee != nil && callee != f {
					for j, a := range cc.Args {
						if derivesFromValue(a, p, 0) && writesThroughParam(callee, j, depth+1) {
							return true
						}
					}
				}
			}
		}
	}
	return false
}

func mutableRefType(t types.Type) bool {
	switch u := t.Underlying().(type) {
	case *types.Map, *types.Slice, *types.Chan:
		return true
	case *types.Pointer:
		s := u.Elem().String()
		return s != "regexp.Regexp" && !strings.HasPrefix(s, "reflect.")
	case *types.Interface:
		return !strings.HasPrefix(t.String(), "reflect.")
	}
	return false
}

func checkC18(c *Ctx) {
	w := c.W
	wGlobal = w
	c.rule("C18.R1", "inventory of the package-level variables of the module packages", 4)
	c.rule("C18.R2", "no write (store, map update, append-store, write through a callee's pointer parameter) to memory rooted at a package-level variable outside package initialisation and sync.Once initialisers", 1)
	c.rule("C18.R3", "no mutable reference loaded from a package-level variable is stored into another object, captured by a closure, or passed to a callee, outside the named generated constructors and initialisers", 1)
	c.rule("C18.R4", "goroutine literals capture only channels and never-reassigned values (C10.R5)", 1)
	w.SSA()
	// ----- R1
	var globals []*ssa.Global
	for _, p := range w.Pkgs {
		if strings.HasSuffix(p.PkgPath, "/internal/testutils") {
			continue
		}
		sp := w.prog.Package(p.Types)
		if sp == nil {
			continue
		}
		for _, mem := range sp.Members {
			if g, ok := mem.(*ssa.Global); ok && !strings.HasPrefix(g.Name(), "init$") {
				globals = append(globals, g)
			}
		}
	}
	sort.Slice(globals, func(i, j int) bool { return globals[i].String() < globals[j].String() })
	for _, g := range globals {
		t := g.Type().(*types.Pointer).Elem()
		kind := "immutable by type"
		if mutableRefType(t) {
			kind = "mutable reference"
		} else if _, isStruct := t.Underlying().(*types.Struct); isStruct {
			kind = "struct (addressable state)"
		}
		c.obN("C18.R1", "var "+shortPkg(g.Pkg.Pkg.Path())+"."+g.Name(), w.Pos(g.Pos()), true, typeStr(t)+" — "+kind, false)
	}
	allowed := initOnlyFuncs(w)
	exemptFns := map[string]string{
		"internal/parser.NewYarnSpinnerLexer":  "generated: shares the immutable name tables and the ATN/DFA caches the ANTLR runtime synchronises (A3)",
		"internal/parser.NewYarnSpinnerParser": "generated: shares the immutable name tables and the ATN/DFA caches the ANTLR runtime synchronises (A3)",
	}
	// ----- R2 / R3
	nWrites, nLoads := 0, 0
	for _, f := range w.ModuleSSAFuncs() {
		pp := ssaFuncPkgPath(f)
		if strings.HasSuffix(pp, "/internal/testutils") {
			continue
		}
		fname := ssaFuncName(f)
		c.Funcs[fname] = true
		why, isInit := allowed[f]
		// R2
		for _, b := range f.Blocks {
			for _, in := range b.Instrs {
				var g *ssa.Global
				what := ""
				switch x := in.(type) {
				case *ssa.Store:
					g, what = globalRoot(x.Addr, 0), "store"
				case *ssa.MapUpdate:
					g, what = globalRoot(x.Map, 0), "map update"
				case ssa.CallInstruction:
					cc := x.Common()
					if callee := cc.StaticCallee(); callee != nil {
						if bi := callee; bi != nil {
							for i, a := range cc.Args {
								if ga := globalAddrRoot(a, 0); ga != nil && isModuleGlobal(ga) && writesThroughParam(callee, i, 0) {
									g, what = ga, "write through "+callee.Name()
								}
								// the concurrent containers of the standard library: synchronised, but shared all the same — what
								// one runner stores, another loads
								if ga := globalAddrRoot(a, 0); ga != nil && isModuleGlobal(ga) && i == 0 && callee.Pkg != nil {
									switch callee.Pkg.Pkg.Path() {
									case "sync", "sync/atomic":
										switch callee.Name() {
										case "Store", "LoadOrStore", "LoadAndDelete", "Delete", "Swap", "CompareAndSwap", "CompareAndDelete", "Clear", "Put", "Get", "Add", "And", "Or":
											g, what = ga, "update through "+callee.String()
										}
									}
								}
							}
						}
					}
					if b, ok := cc.Value.(*ssa.Builtin); ok && (b.Name() == "delete" || b.Name() == "clear") && len(cc.Args) > 0 {
						g, what = globalRoot(cc.Args[0], 0), b.Name()
					}
				}
				if g == nil || !isModuleGlobal(g) {
					continue
				}
				nWrites++
				key := fname + "/" + what + " " + g.Name()
				if isInit {
					c.obN("C18.R2", key, w.Pos(in.Pos()), true, "during "+why, false)
				} else {
					c.ob("C18.R2", key, w.Pos(in.Pos()), false, "package-level variable "+g.Name()+" is written at run time ("+what+"): every runner in the process shares it, so concurrent runners race and one runner's state leaks into another")
				}
			}
		}
		// R3: taint
		tainted := map[ssa.Value]*ssa.Global{}
		for _, b := range f.Blocks {
			for _, in := range b.Instrs {
				if ld, ok := in.(*ssa.UnOp); ok && ld.Op == token.MUL {
					if g := globalRoot(ld.X, 0); g != nil && isModuleGlobal(g) && mutableRefType(ld.Type()) {
						tainted[ld] = g
						nLoads++
					}
				}
			}
		}
		if len(tainted) == 0 {
			continue
		}
		for changed := true; changed; {
			changed = false
			for _, b := range f.Blocks {
				for _, in := range b.Instrs {
					v, ok := in.(ssa.Value)
					if !ok || tainted[v] != nil || !mutableRefType(v.Type()) {
						continue
					}
					var src *ssa.Global
					switch x := in.(type) {
					case *ssa.Phi:
						for _, e := range x.Edges {
							if tainted[e] != nil {
								src = tainted[e]
							}
						}
					case *ssa.Lookup:
						src = tainted[x.X]
					case *ssa.Index:
						src = tainted[x.X]
					case *ssa.Field:
						src = tainted[x.X]
					case *ssa.Slice:
						src = tainted[x.X]
					case *ssa.ChangeType:
						src = tainted[x.X]
					case *ssa.MakeInterface:
						src = tainted[x.X]
					case *ssa.TypeAssert:
						src = tainted[x.X]
					case *ssa.Extract:
						src = tainted[x.Tuple]
					case *ssa.UnOp:
						if x.Op == token.MUL {
							switch a := x.X.(type) {
							case *ssa.IndexAddr:
								src = tainted[a.X]
							case *ssa.FieldAddr:
								src = tainted[a.X]
							}
						}
					}
					if src != nil {
						tainted[v] = src
						changed = true
					}
				}
			}
		}
		root := f
		for root.Parent() != nil {
			root = root.Parent()
		}
		exemptWhy := exemptFns[ssaFuncName(root)]
		report := func(in ssa.Instruction, g *ssa.Global, how string) {
			key := fname + "/" + how + " " + g.Name()
			switch {
			case isInit:
				c.obN("C18.R3", key, w.Pos(in.Pos()), true, "during "+why, false)
			case exemptWhy != "":
				c.obN("C18.R3", key, w.Pos(in.Pos()), true, "named exception: "+exemptWhy, false)
			default:
				c.ob("C18.R3", key, w.Pos(in.Pos()), false, "a mutable reference loaded from package-level variable "+g.Name()+" is "+how+": the receiving object aliases memory every runner shares")
			}
		}
		for _, b := range f.Blocks {
			for _, in := range b.Instrs {
				switch x := in.(type) {
				case *ssa.Store:
					if g := tainted[x.Val]; g != nil && globalRoot(x.Addr, 0) == nil {
						if _, local := x.Addr.(*ssa.Alloc); local && !allocEscapes(x.Addr.(*ssa.Alloc)) {
							continue
						}
						report(in, g, "stored into another object")
					}
				case *ssa.MapUpdate:
					if g := tainted[x.Value]; g != nil {
						report(in, g, "stored into a map")
					}
				case *ssa.MakeClosure:
					for _, bnd := range x.Bindings {
						if g := tainted[bnd]; g != nil {
							report(in, g, "captured by a closure")
						}
					}
				case *ssa.Return:
					for _, r := range x.Results {
						if g := tainted[r]; g != nil {
							report(in, g, "returned to the caller")
						}
					}
				case ssa.CallInstruction:
					for _, a := range x.Common().Args {
						if g := tainted[a]; g != nil {
							if callee := x.Common().StaticCallee(); callee != nil && pureCallee(callee) {
								continue
							}
							// read as the source of a copy by the standard library: maps.Clone(src), maps.Copy(dst, src), slices.Clone(src) —
							// the entries are copied into another map, the shared map itself goes nowhere
							if callee := x.Common().StaticCallee(); callee != nil {
								gen := callee
								if callee.Origin() != nil {
									gen = callee.Origin()
								}
								if obj := gen.Object(); obj != nil && obj.Pkg() != nil {
									argIdx := -1
									for i, aa := range x.Common().Args {
										if aa == a {
											argIdx = i
										}
									}
									pp, nm := obj.Pkg().Path(), obj.Name()
									if (pp == "maps" || pp == "slices") && (nm == "Clone" && argIdx == 0 || nm == "Copy" && argIdx == 1 || nm == "Keys" || nm == "Values" || nm == "All" || nm == "Equal") {
										continue
									}
								}
							}
							report(in, g, "passed to a callee")
						}
					}
				}
			}
		}
	}
	if nWrites == 0 {
		c.undecided("C18.R2", "no write to any package-level variable found at all (not even during initialisation): the inventory is broken")
	}
	bad := 0
	for _, o := range c.Obs {
		if !o.OK && (o.Rule == "C18.R2" || o.Rule == "C18.R3") {
			bad++
		}
	}
	if bad == 0 {
		c.ob("C18.R2", "module/no-runtime-write", "-", true, "all "+itoa(nWrites)+" writes to package-level variables happen during initialisation")
		c.ob("C18.R3", "module/no-escape", "-", true, itoa(nLoads)+" loads of mutable references from package-level variables; none escapes outside the named exceptions and initialisers")
	}
	// function values kept in package-level variables are capture-free
	for _, f := range w.ModuleSSAFuncs() {
		if f.Parent() != nil && (f.Parent().Synthetic == "package initializer" || f.Parent().Name() == "init") && len(f.FreeVars) > 0 {
			c.ob("C18.R3", ssaFuncName(f)+"/captures", w.Pos(f.Pos()), false, "a function literal in a package-level initialiser captures variables: it is shared mutable state")
		}
	}
	// ----- R5: function values built once for the whole process keep no state between calls
	c18SharedClosures(c, allowed)
	// ----- R4
	tmp := newCtx(c.Prop, c.Tier, w)
	tmp.rule("C10.R5", "", 0)
	checkGoCaptures(tmp)
	for _, o := range tmp.Obs {
		c.ob("C18.R4", o.Key, o.Pos, o.OK, o.How)
	}
}

// c18SharedClosures (C18.R5): closures created while package-level state is initialised — in a package initialiser, a
// sync.Once / sync.OnceValue / sync.OnceFunc initialiser, or a module function those call (e.g. the bridge constructors when
// the base functions are converted once and the result is shared by every runner) — are shared by every runner of the
// process. Such a closure must not write what it captured: no store to a captured variable, no store into a captured
// slice, map or struct (through any chain of loads, fields and indexes), also from closures nested in it that capture the
// same variables. Per-call state (parameters, locals, captured variables of closures created at call time) is not concerned.
func c18SharedClosures(c *Ctx, allowed map[*ssa.Function]string) {
	w := c.W
	c.rule("C18.R5", "function values built once for the whole process (in package initialisers, sync.Once/OnceValue initialisers and the module functions they call) are stateless: their bodies never store to, or into, a variable they captured", 5)
	inMod := func(f *ssa.Function) bool {
		pp := ssaFuncPkgPath(f)
		return strings.HasPrefix(pp, modPath) && !strings.HasSuffix(pp, "/internal/parser") && !strings.HasSuffix(pp, "/internal/testutils")
	}
	// build-time functions: initialisers, the function literals handed to sync.OnceValue/OnceFunc/OnceValues, and their static callees
	build := map[*ssa.Function]string{}
	var work []*ssa.Function
	add := func(f *ssa.Function, why string) {
		if f == nil || f.Blocks == nil || build[f] != "" || !inMod(f) {
			return
		}
		build[f] = why
		work = append(work, f)
	}
	for f, why := range allowed {
		if f.Parent() == nil { // the literals of an initialiser are values it creates, not code it runs (those handed to sync.Once… are added below)
			add(f, why)
		}
	}
	for _, f := range w.ModuleSSAFuncs() {
		for _, b := range f.Blocks {
			for _, in := range b.Instrs {
				call, ok := in.(ssa.CallInstruction)
				if !ok {
					continue
				}
				callee := call.Common().StaticCallee()
				if callee == nil {
					continue
				}
				obj := callee.Object() // instantiations of generic functions (sync.OnceValue[T]) have no package of their own
				if obj == nil && callee.Origin() != nil {
					obj = callee.Origin().Object()
				}
				if obj == nil || obj.Pkg() == nil || obj.Pkg().Path() != "sync" || !strings.HasPrefix(obj.Name(), "Once") {
					continue
				}
				for _, a := range call.Common().Args {
					switch x := a.(type) {
					case *ssa.Function:
						add(x, "sync."+obj.Name()+" initialiser")
					case *ssa.MakeClosure:
						add(x.Fn.(*ssa.Function), "sync."+obj.Name()+" initialiser")
					}
				}
			}
		}
	}
	type sharedClosure struct {
		fn  *ssa.Function
		why string
		at  token.Pos
	}
	var shared []sharedClosure
	seenShared := map[*ssa.Function]bool{}
	for len(work) > 0 {
		f := work[0]
		work = work[1:]
		why := build[f]
		for _, b := range f.Blocks {
			for _, in := range b.Instrs {
				switch x := in.(type) {
				case ssa.CallInstruction:
					if callee := x.Common().StaticCallee(); callee != nil {
						add(callee, why+" (through "+ssaFuncName(f)+")")
					}
				}
				if mc, ok := in.(*ssa.MakeClosure); ok {
					fn := mc.Fn.(*ssa.Function)
					// a literal that is itself run at build time (handed to sync.Once…) is not a shared call-time closure
					if build[fn] == "" && !seenShared[fn] && inMod(fn) {
						seenShared[fn] = true
						shared = append(shared, sharedClosure{fn, why, mc.Pos()})
					}
				}
			}
		}
		// capture-free literals are plain functions: referenced, not made
		for _, a := range f.AnonFuncs {
			if len(a.FreeVars) == 0 && build[a] == "" && !seenShared[a] {
				seenShared[a] = true
				shared = append(shared, sharedClosure{a, why, a.Pos()})
			}
		}
	}
	sort.Slice(shared, func(i, j int) bool { return ssaFuncName(shared[i].fn) < ssaFuncName(shared[j].fn) })
	var rootsAtShared func(v ssa.Value, sh map[*ssa.FreeVar]bool, depth int) *ssa.FreeVar
	rootsAtShared = func(v ssa.Value, sh map[*ssa.FreeVar]bool, depth int) *ssa.FreeVar {
		if depth > 12 {
			return nil
		}
		switch x := v.(type) {
		case *ssa.FreeVar:
			if sh[x] {
				return x
			}
		case *ssa.FieldAddr:
			return rootsAtShared(x.X, sh, depth+1)
		case *ssa.IndexAddr:
			return rootsAtShared(x.X, sh, depth+1)
		case *ssa.UnOp:
			return rootsAtShared(x.X, sh, depth+1)
		case *ssa.Field:
			return rootsAtShared(x.X, sh, depth+1)
		case *ssa.Index:
			return rootsAtShared(x.X, sh, depth+1)
		case *ssa.Slice:
			return rootsAtShared(x.X, sh, depth+1)
		case *ssa.Lookup:
			return rootsAtShared(x.X, sh, depth+1)
		case *ssa.Phi:
			for _, e := range x.Edges {
				if r := rootsAtShared(e, sh, depth+1); r != nil {
					return r
				}
			}
		}
		return nil
	}
	var scan func(fn *ssa.Function, sh map[*ssa.FreeVar]bool, top sharedClosure, depth int)
	n := 0
	scan = func(fn *ssa.Function, sh map[*ssa.FreeVar]bool, top sharedClosure, depth int) {
		if depth > 6 {
			return
		}
		for _, b := range fn.Blocks {
			for _, in := range b.Instrs {
				var fv *ssa.FreeVar
				what := ""
				switch x := in.(type) {
				case *ssa.Store:
					fv, what = rootsAtShared(x.Addr, sh, 0), "store"
				case *ssa.MapUpdate:
					fv, what = rootsAtShared(x.Map, sh, 0), "map update"
				case *ssa.MakeClosure:
					// a closure created at call time that captures shared state carries it along
					inner := x.Fn.(*ssa.Function)
					ish := map[*ssa.FreeVar]bool{}
					for i, bnd := range x.Bindings {
						if i < len(inner.FreeVars) && rootsAtShared(bnd, sh, 0) != nil {
							ish[inner.FreeVars[i]] = true
						}
					}
					if len(ish) > 0 {
						scan(inner, ish, top, depth+1)
					}
				case ssa.CallInstruction:
					cc := x.Common()
					if b, ok := cc.Value.(*ssa.Builtin); ok && (b.Name() == "delete" || b.Name() == "clear" || b.Name() == "copy") && len(cc.Args) > 0 {
						fv, what = rootsAtShared(cc.Args[0], sh, 0), b.Name()
					}
				}
				if fv != nil {
					n++
					c.ob("C18.R5", ssaFuncName(top.fn)+"/"+what+" "+fv.Name(), w.Pos(in.Pos()), false, "a function value created during "+top.why+" — shared by every runner of the process — writes the variable "+fv.Name()+" it captured ("+what+" in "+ssaFuncName(fn)+"): concurrent runners race on it and see each other's data")
				}
			}
		}
	}
	for _, sc := range shared {
		c.Funcs[ssaFuncName(sc.fn)] = true
		sh := map[*ssa.FreeVar]bool{}
		for _, fv := range sc.fn.FreeVars {
			sh[fv] = true
		}
		before := n
		scan(sc.fn, sh, sc, 0)
		if n == before {
			c.obN("C18.R5", ssaFuncName(sc.fn)+"/stateless", w.Pos(sc.at), true, "created during "+sc.why+"; never stores to or into a captured variable ("+itoa(len(sc.fn.FreeVars))+" captured)", len(sc.fn.FreeVars) > 0)
		}
	}
}

// globalAddrRoot: v is the address of (part of) a global, without any load in between.
func globalAddrRoot(v ssa.Value, depth int) *ssa.Global {
	if depth > 8 {
		return nil
	}
	switch x := v.(type) {
	case *ssa.Global:
		return x
	case *ssa.FieldAddr:
		return globalAddrRoot(x.X, depth+1)
	case *ssa.IndexAddr:
		return globalAddrRoot(x.X, depth+1)
	}
	return nil
}

func allocEscapes(a *ssa.Alloc) bool { return a.Heap }

// pureCallee: callees that neither retain nor mutate their arguments
func pureCallee(f *ssa.Function) bool {
	if f.Pkg == nil {
		return false
	}
	switch f.Pkg.Pkg.Path() {
	case "fmt", "strings", "strconv", "errors", "unicode", "unicode/utf8", "math", "slices", "maps", "regexp", "reflect":
		return true
	}
	return false
}
