package main

// c15.go — C15: markup parsing is total and its results are safe to use.

import (
	"go/ast"
	"go/token"
	"go/types"
	"sort"
	"strings"

	"golang.org/x/tools/go/ssa"
)

func init() {
	registry["C15"] = &propCheck{
		meta: propMeta{
			Level: "other",
			Explanation: "Decides: (R1) termination — the markup package's call graph is acyclic, and on every path around every non-range loop the remaining input strictly shrinks: the path passes a checked ReadRune or a call to a function whose every nil-error return is preceded by one (fixpoint summaries), and the reader is only ever replaced by a reader over a suffix of what the current reader still held; " +
				"(R2) no panic — no explicit panic in the package, every index/slice operation the compiler cannot prove is discharged (guard entailment, regexp offset contract with same-string check, reviewed reasons), in particular the character slice of TextForAttribute must be proved by the compiler; (R3) TextForAttribute's guard is in characters (unit rule of C13); " +
				"(R4) trim dependence — since the returned text is a trimmed version of the string the positions were measured in, the returned attributes must depend on that trim; (R5) every returned attribute went through the clamp, and the clamp's min/max structure proves 0 <= position, 0 <= length and position+length <= text length (symbolic bound reasoning over min/max).",
			NotDecided:  "the exact range arithmetic of the trim shift (values); invalid UTF-8 beyond termination and bounds",
			Assumptions: []string{"A4 (RE2 regexp and io.ReadAll on a strings.Reader terminate; FindStringIndex returns nil or two in-range byte offsets)", "the compiler's prove pass is sound"},
			Trusted:     []string{"go/types", "golang.org/x/tools/go/cfg", "golang.org/x/tools/go/ssa", "cmd/compile's bounds report", "tables/bounds.json", "go/packages loader"},
		},
		run: checkC15,
	}
}

func checkC15(c *Ctx) {
	w := c.W
	wGlobal = w
	c.rule("C15.R1", "termination: acyclic call graph in markup; every cycle of every non-range loop passes a consuming call; the reader is only replaced by one over a suffix of the remaining input", 8)
	c.rule("C15.R2", "no panic: no explicit panic in markup; every unproved bounds site discharged; the []rune slice of TextForAttribute proved by the compiler", 6)
	c.rule("C15.R3", "TextForAttribute compares and slices in characters (unit rule)", 1)
	c.rule("C15.R4", "trim dependence: the returned attributes depend on the trim that produced the returned text", 1)
	c.rule("C15.R5", "every returned attribute is clamped: the clamp yields 0 <= position, 0 <= length, position+length <= text length (min/max bound reasoning), and nothing is added to the list after it", 4)
	mp := w.Pkg("markup")
	if mp == nil {
		c.undecided("C15", "package markup not loaded")
		return
	}
	c15Termination(c)
	// ----- R2
	n := 0
	for _, f := range w.ModuleSSAFuncs() {
		if ssaFuncPkgPath(f) != modPath+"/markup" {
			continue
		}
		for _, b := range f.Blocks {
			for _, in := range b.Instrs {
				if p, ok := in.(*ssa.Panic); ok {
					n++
					c.ob("C15.R2", ssaFuncName(f)+"/panic#"+itoa(n), w.Pos(p.Pos()), false, "an explicit panic in the markup package: parsing or using a result can panic")
				}
			}
		}
	}
	if n == 0 {
		c.ob("C15.R2", "markup/no-explicit-panic", "-", true, "no explicit panic in package markup")
	}
	checkBounds(c, "C15.R2", func(s bceSite) bool {
		return strings.HasPrefix(relTo(w.Repo, s.File), "markup/")
	}, nil)
	// the character slice of TextForAttribute must be compiler-proved: it must exist and not be in the report
	tfa := w.DeclByName(mp, "ParseResult.TextForAttribute")
	if tfa == nil {
		c.undecided("C15.R2", "TextForAttribute not found")
	} else {
		c.fn(tfa)
		sites, _ := w.bceSites()
		var slices []*ast.SliceExpr
		walkNoLit(tfa.Body, func(q ast.Node) bool {
			if se, ok := q.(*ast.SliceExpr); ok {
				slices = append(slices, se)
			}
			if ix, ok := q.(*ast.IndexExpr); ok {
				_ = ix
			}
			return true
		})
		for i, se := range slices {
			reported := false
			for _, s := range sites {
				if s.Node == ast.Expr(se) {
					reported = true
				}
			}
			if !reported {
				c.ob("C15.R2", tfa.Name+"/slice#"+itoa(i+1)+" "+exprStr(se), w.Pos(se.Pos()), true, "proved in bounds by the compiler (absent from the unproved-bounds report)")
			}
		}
	}
	// ----- R3
	unitRuleMin(c, "C15.R3", 3, func(f *ssa.Function) bool { return strings.Contains(f.String(), "TextForAttribute") })
	// ----- R4, R5
	c15TrimAndClamp(c)
	c15ResultAliasing(c)
}

// ---------- R1 ----------

func c15Termination(c *Ctx) {
	w := c.W
	mp := w.Pkg("markup")
	info := mp.TypesInfo
	fns := w.FuncsIn(mp)
	// call graph (declared functions only)
	callees := map[*Func][]*Func{}
	for _, f := range fns {
		if f.Body == nil {
			continue
		}
		root := w.rootOf(f)
		ast.Inspect(f.Body, func(q ast.Node) bool {
			if call, ok := q.(*ast.CallExpr); ok {
				if callee := calleeOf(info, call); callee != nil {
					if g := w.byObj[callee]; g != nil && g.Pkg == mp {
						callees[root] = append(callees[root], g)
					}
				}
			}
			return true
		})
	}
	// cycle detection
	state := map[*Func]int{}
	var cyc []string
	var dfs func(f *Func, path []string)
	dfs = func(f *Func, path []string) {
		state[f] = 1
		for _, g := range callees[f] {
			switch state[g] {
			case 0:
				dfs(g, append(path, g.Name))
			case 1:
				cyc = append(cyc, strings.Join(append(path, g.Name), " -> "))
			}
		}
		state[f] = 2
	}
	for _, f := range fns {
		if f.Decl != nil && state[f] == 0 {
			dfs(f, []string{f.Name})
		}
	}
	c.ob("C15.R1", "markup/call-graph-acyclic", "-", len(cyc) == 0, map[bool]string{true: "no recursion among the " + itoa(len(fns)) + " functions of package markup", false: "recursion in package markup (" + strings.Join(cyc, "; ") + "): termination is no longer a per-loop question"}[len(cyc) == 0])
	if len(cyc) > 0 {
		return
	}
	// must-consume summaries: every nil-error (or non-error) normal return is preceded by a successful ReadRune
	isReadRune := func(call *ast.CallExpr) bool {
		callee := calleeOf(info, call)
		if callee == nil {
			return false
		}
		full := funcFullName(callee)
		return full == "(*strings.Reader).ReadRune" || full == "(io.RuneScanner).ReadRune" || full == "(io.RuneReader).ReadRune" || full == "(*bufio.Reader).ReadRune"
	}
	// a peek helper reads then unreads: not consuming
	mustConsume := map[*Func]bool{}
	unreads := func(f *Func) bool {
		found := false
		ast.Inspect(f.Body, func(q ast.Node) bool {
			if call, ok := q.(*ast.CallExpr); ok {
				if sel, ok := unparen(call.Fun).(*ast.SelectorExpr); ok && sel.Sel.Name == "UnreadRune" {
					found = true
				}
			}
			return true
		})
		return found
	}
	consumeRule := func(f *Func, loop ast.Node) evtRule {
		return evtRule{
			start: "fresh",
			prim: func(n ast.Node) []string {
				switch n := n.(type) {
				case *ast.CallExpr:
					if isReadRune(n) && !unreads(f) {
						return []string{"CONSUME"}
					}
					if callee := calleeOf(info, n); callee != nil {
						if g := w.byObj[callee]; g != nil && mustConsume[g] && errGuarded(w, info, n) {
							return []string{"CONSUME"}
						}
					}
				case *pseudo:
					if loop != nil && n.stmt == loop && n.kind == "BACKEDGE" {
						return []string{"ITERATE"}
					}
				}
				return nil
			},
			step: func(st, ev string) string {
				switch ev {
				case "CONSUME":
					return "consumed"
				case "ITERATE":
					if st == "fresh" {
						return "stuck"
					}
					return "fresh"
				}
				return ""
			},
			bad: func(st, ev string) string {
				if st == "stuck" && ev == "ITERATE" {
					return "a path goes round this loop without consuming input: on some line the parser would never terminate"
				}
				return ""
			},
		}
	}
	// fixpoint for summaries (least: start with none)
	for changed := true; changed; {
		changed = false
		for _, f := range fns {
			if f.Decl == nil || f.Body == nil || mustConsume[f] {
				continue
			}
			sig := f.Sig()
			hasErr := sig.Results().Len() > 0 && typeStr(sig.Results().At(sig.Results().Len()-1).Type()) == "error"
			if !hasErr {
				continue
			}
			all, any := true, false
			r := consumeRule(f, nil)
			r.ret = func(st string, ret *ast.ReturnStmt, kind string) string {
				if kind == "nil" || kind == "unknown" || kind == "relay" {
					any = true
					if st != "consumed" {
						all = false
					}
				}
				return ""
			}
			runEVT(w, f, r)
			if all && any {
				mustConsume[f] = true
				changed = true
			}
		}
	}
	var mc []string
	for f := range mustConsume {
		mc = append(mc, f.Name)
	}
	sort.Strings(mc)
	c.Extra["must_consume_functions"] = mc
	// loops
	nLoops := 0
	for _, f := range fns {
		if f.Body == nil {
			continue
		}
		walkNoLit(f.Body, func(q ast.Node) bool {
			switch q := q.(type) {
			case *ast.RangeStmt:
				// range over a channel or a function would not be bounded
				if tv, ok := info.Types[q.X]; ok {
					switch tv.Type.Underlying().(type) {
					case *types.Chan, *types.Signature:
						c.ob("C15.R1", f.Name+"/range-unbounded", w.Pos(q.Pos()), false, "range over a channel or function is not bounded by the input")
					}
				}
			case *ast.ForStmt:
				nLoops++
				c.fn(f)
				key := f.Name + "/loop#" + itoa(nLoops)
				// counted loops over an index with a len bound and a ++ post are bounded
				if q.Cond != nil && q.Post != nil {
					if inc, ok := q.Post.(*ast.IncDecStmt); ok && inc.Tok == token.INC {
						c.obN("C15.R1", key, w.Pos(q.Pos()), true, "counted loop", false)
						return true
					}
				}
				fs := runEVT(w, f, consumeRule(f, q))
				if len(fs) == 0 {
					c.ob("C15.R1", key, w.Pos(q.Pos()), true, "every path around the loop passes a checked ReadRune or a call that must consume ("+strings.Join(mc, ", ")+")")
				}
				for _, fd := range fs {
					c.ob("C15.R1", key, w.Pos(fd.pos), false, fd.msg)
					break
				}
			}
			return true
		})
	}
	if nLoops < 5 {
		c.undecided("C15.R1", "only "+itoa(nLoops)+" non-range loops found in markup")
	}
	// reader replacement
	lp := namedType(mp, "LineParser")
	if lp == nil {
		return
	}
	fReader := structFieldByType(lp, "*strings.Reader")
	fInput := structFieldByName(lp, "input")
	if fReader == nil {
		c.undecided("C15.R1", "LineParser reader field not found")
		return
	}
	ns := 0
	for _, f := range fns {
		if f.Body == nil {
			continue
		}
		x := w.expander(f)
		walkNoLit(f.Body, func(q ast.Node) bool {
			as, ok := q.(*ast.AssignStmt)
			if !ok {
				return true
			}
			for i, l := range as.Lhs {
				if _, isSel := unparen(l).(*ast.SelectorExpr); !isSel || lastField(info, l) != fReader || len(as.Rhs) != len(as.Lhs) {
					continue
				}
				ns++
				s := x.str(as.Rhs[i])
				recv := "$" + recvName(f)
				okS, why := false, "the reader is replaced by "+s
				switch {
				case fInput != nil && s == "strings.NewReader("+recv+"."+fInput.Name()+")":
					okS, why = true, "parse entry: a reader over the whole input"
				case strings.HasPrefix(s, "strings.NewReader(conv:string(io.ReadAll("+recv+"."+fReader.Name()+")#0)[") && strings.HasSuffix(s, ":])"):
					okS, why = true, "a reader over a suffix of what the current reader still held (the remaining input never grows)"
				}
				c.ob("C15.R1", f.Name+"/reader-replaced#"+itoa(ns), w.Pos(as.Pos()), okS, map[bool]string{true: why, false: why + ": not the whole input at parse entry nor a suffix of the remaining input — the remaining input could grow and parsing never end"}[okS])
			}
			return true
		})
	}
}

// errGuarded: the call's error result is tested right away by a terminating `if err != nil`.
func errGuarded(w *World, info *types.Info, call *ast.CallExpr) bool {
	par := w.parent[call]
	var errObj types.Object
	var holder ast.Node
	switch p := par.(type) {
	case *ast.AssignStmt:
		last := p.Lhs[len(p.Lhs)-1]
		if id := identOf(last); id != nil && id.Name != "_" {
			errObj = info.Defs[id]
			if errObj == nil {
				errObj = info.Uses[id]
			}
		}
		holder = p
	default:
		return false
	}
	if errObj == nil {
		return false
	}
	isErrTest := func(is *ast.IfStmt) bool {
		b, ok := unparen(is.Cond).(*ast.BinaryExpr)
		if !ok || b.Op != token.NEQ || !isNilExpr(info, b.Y) {
			return false
		}
		id := identOf(b.X)
		return id != nil && info.Uses[id] == errObj && isTerminating(info, is.Body)
	}
	// if v, err := f(); err != nil { return }
	if is, ok := w.parent[holder].(*ast.IfStmt); ok && is.Init == holder {
		return isErrTest(is)
	}
	// next statement in the block
	if blk, ok := w.parent[holder].(*ast.BlockStmt); ok {
		for i, st := range blk.List {
			if st == holder && i+1 < len(blk.List) {
				if is, ok := blk.List[i+1].(*ast.IfStmt); ok {
					return isErrTest(is)
				}
			}
		}
	}
	return false
}

// ---------- R4, R5 ----------

func c15TrimAndClamp(c *Ctx) {
	w := c.W
	mp := w.Pkg("markup")
	info := mp.TypesInfo
	entry := w.DeclByName(mp, "LineParser.parseMarkup")
	if entry == nil {
		c.undecided("C15.R4", "parseMarkup not found")
		return
	}
	c.fn(entry)
	x := w.expander(entry)
	var lit *ast.CompositeLit
	var allLits []*ast.CompositeLit
	walkNoLit(entry.Body, func(q ast.Node) bool {
		if cl, ok := q.(*ast.CompositeLit); ok {
			if tv, ok := info.Types[cl]; ok && typeStr(tv.Type) == "markup.ParseResult" {
				lit = cl
				allLits = append(allLits, cl)
			}
		}
		return true
	})
	if lit == nil {
		c.undecided("C15.R4", "no ParseResult literal in parseMarkup")
		return
	}
	text, attrs := litField(lit, "Text"), litField(lit, "Attributes")
	ts, as := "", ""
	if text != nil {
		ts = x.str(text)
	}
	if attrs != nil {
		as = x.str(attrs)
	}
	trimmed := strings.Contains(ts, "strings.Trim")
	if !trimmed {
		c.obN("C15.R4", entry.Name+"/trim-dependence", w.Pos(lit.Pos()), true, "the returned text is not a trimmed version of the measured string: nothing to compensate", false)
	} else {
		dep := strings.Contains(as, "strings.Trim")
		c.ob("C15.R4", entry.Name+"/trim-dependence", w.Pos(lit.Pos()), dep, map[bool]string{true: "the returned attributes are computed from the trim as well (offset of the trimmed prefix / trimmed length)", false: "the returned text is trimmed but the returned attributes (" + shorten(as, 80) + ") do not depend on the trim: two lines that differ only in leading whitespace get identical positions, one of which is wrong (and may lie outside the text)"}[dep])
	}
	// R5: Attributes is directly the result of the clamp
	call, ok := unparen(attrs).(*ast.CallExpr)
	var clamp *Func
	if ok {
		if callee := calleeOf(info, call); callee != nil {
			clamp = w.byObj[callee]
		}
	}
	if clamp == nil {
		c.ob("C15.R5", entry.Name+"/clamped-result", w.Pos(lit.Pos()), false, "the returned attribute list is "+shorten(as, 80)+", not the direct result of the clamping function: an attribute added after the clamp (or never clamped) can lie outside the returned text")
		return
	}
	c.fn(clamp)
	// every other result built in the function (an early return, a fast path) is clamped by the same function, or has no attributes
	for k, other := range allLits {
		if other == lit {
			continue
		}
		oa := litField(other, "Attributes")
		okOther := oa == nil || isNilExpr(info, oa)
		if oc, isCall := unparen(oa).(*ast.CallExpr); oa != nil && isCall {
			if callee := calleeOf(info, oc); callee != nil && w.byObj[callee] == clamp {
				okOther = true
			}
		}
		if !okOther {
			c.ob("C15.R5", entry.Name+"/clamped-result#"+itoa(k+1), w.Pos(other.Pos()), false, "another result of the function carries the attribute list "+shorten(x.str(oa), 80)+", which is not the result of "+clamp.Name+": on that path an attribute (the implicit character attribute is measured on the source line) can lie outside the returned text")
		}
	}
	// … and stays that: a result kept in a local must not be written between the literal and the return
	modified := ""
	{
		var holder types.Object
		var p ast.Node = lit
		if u, ok := w.parent[lit].(*ast.UnaryExpr); ok {
			p = u
		}
		switch a := w.parent[p].(type) {
		case *ast.AssignStmt:
			for i, r := range a.Rhs {
				if ast.Node(r) == p && i < len(a.Lhs) {
					if id := identOf(a.Lhs[i]); id != nil {
						holder = info.Defs[id]
						if holder == nil {
							holder = info.Uses[id]
						}
					}
				}
			}
		case *ast.ValueSpec:
			for i, r := range a.Values {
				if ast.Node(r) == p && i < len(a.Names) {
					holder = info.Defs[a.Names[i]]
				}
			}
		}
		if holder != nil {
			ast.Inspect(entry.Body, func(q ast.Node) bool {
				var lhs []ast.Expr
				switch y := q.(type) {
				case *ast.AssignStmt:
					lhs = y.Lhs
				case *ast.IncDecStmt:
					lhs = []ast.Expr{y.X}
				}
				for _, l := range lhs {
					if _, isIdent := unparen(l).(*ast.Ident); isIdent {
						continue
					}
					if r := identOfRoot(stripIndexes(l)); r != nil && info.Uses[r] == holder && l.Pos() > lit.End() {
						modified = exprStr(l) + " at " + w.Pos(l.Pos())
					}
				}
				return true
			})
		}
	}
	if modified != "" {
		c.ob("C15.R5", entry.Name+"/clamped-result", w.Pos(lit.Pos()), false, "the result is written after it was built from the clamped list ("+modified+"): what is added or changed there was never clamped and can lie outside the returned text")
		return
	}
	c.ob("C15.R5", entry.Name+"/clamped-result", w.Pos(lit.Pos()), true, "the returned attribute list is the direct result of "+clamp.Name+" and is not written afterwards")
	// the text-length argument is the character count of the returned text
	sig := clamp.Sig()
	lenIdx := -1
	for i := sig.Params().Len() - 1; i >= 0; i-- {
		if isIntType(sig.Params().At(i).Type()) {
			lenIdx = i
			break
		}
	}
	if lenIdx < 0 || lenIdx >= len(call.Args) {
		c.ob("C15.R5", clamp.Name+"/length-argument", w.Pos(call.Pos()), false, "the clamp has no text-length parameter")
		return
	}
	la := x.str(call.Args[lenIdx])
	okLen := la == "unicode/utf8.RuneCountInString("+ts+")" || la == "len(conv:[]rune("+ts+"))"
	c.ob("C15.R5", clamp.Name+"/length-argument", w.Pos(call.Args[lenIdx].Pos()), okLen, map[bool]string{true: "the clamp is given the character count of the returned text", false: "the clamp's length argument is " + shorten(la, 80) + ", not the character count of the returned text"}[okLen])
	// bound reasoning inside the clamp
	proveClamp(c, clamp, sig.Params().At(lenIdx))
}

func shorten(s string, n int) string {
	if len(s) > n {
		return s[:n-3] + "..."
	}
	return s
}

// symbolic bounds: for an expression, the set of symbols it is >= (lower) and <= (upper). Symbols: "0", "L", locals.
type bounds struct{ lower, upper map[string]bool }

func proveClamp(c *Ctx, f *Func, L *types.Var) {
	w := c.W
	info := f.Pkg.TypesInfo
	env := map[types.Object]bounds{}
	sym := func(e ast.Expr) string {
		e = unparen(e)
		if tv, ok := info.Types[e]; ok && tv.Value != nil {
			if tv.Value.ExactString() == "0" {
				return "0"
			}
			return "const"
		}
		if id := identOf(e); id != nil {
			if info.Uses[id] == L {
				return "L"
			}
			return "v:" + id.Name
		}
		return ""
	}
	var bnd func(e ast.Expr) bounds
	envByName := func(s string) (bounds, bool) {
		if !strings.HasPrefix(s, "v:") {
			return bounds{}, false
		}
		for obj, b := range env {
			if obj != nil && "v:"+obj.Name() == s {
				return b, true
			}
		}
		return bounds{}, false
	}
	// e >= s: recorded, identical, or s is a local known to be <= e's symbol
	geq := func(b bounds, e ast.Expr, s string) bool {
		if b.lower[s] || sym(e) == s {
			return true
		}
		if sb, ok := envByName(s); ok && sym(e) != "" && sb.upper[sym(e)] {
			return true
		}
		return false
	}
	leq := func(b bounds, e ast.Expr, s string) bool {
		if b.upper[s] || sym(e) == s {
			return true
		}
		if sb, ok := envByName(s); ok && sym(e) != "" && sb.lower[sym(e)] {
			return true
		}
		return false
	}
	var combine func(isMax bool, x, y ast.Expr) bounds
	bnd = func(e ast.Expr) bounds {
		e = unparen(e)
		out := bounds{map[string]bool{}, map[string]bool{}}
		if s := sym(e); s != "" {
			out.lower[s], out.upper[s] = true, true
			if s == "L" {
				out.lower["0"] = true // a length
			}
			if id := identOf(e); id != nil {
				if b, ok := env[info.Uses[id]]; ok {
					for k := range b.lower {
						out.lower[k] = true
					}
					for k := range b.upper {
						out.upper[k] = true
					}
				}
			}
			return out
		}
		call, ok := e.(*ast.CallExpr)
		if ok && len(call.Args) == 2 && (isBuiltin(info, call, "min") || isBuiltin(info, call, "max")) {
			return combine(isBuiltin(info, call, "max"), call.Args[0], call.Args[1])
		}
		return out
	}
	// combine: the bounds of max(x, y) / min(x, y)
	combine = func(isMax bool, x, y ast.Expr) bounds {
		out := bounds{map[string]bool{}, map[string]bool{}}
		a, b := bnd(x), bnd(y)
		syms := map[string]bool{}
		for k := range a.lower {
			syms[k] = true
		}
		for k := range a.upper {
			syms[k] = true
		}
		for k := range b.lower {
			syms[k] = true
		}
		for k := range b.upper {
			syms[k] = true
		}
		if s := sym(x); s != "" {
			syms[s] = true
		}
		if s := sym(y); s != "" {
			syms[s] = true
		}
		for s := range syms {
			ga, gb := geq(a, x, s), geq(b, y, s)
			la, lb := leq(a, x, s), leq(b, y, s)
			if isMax {
				if ga || gb {
					out.lower[s] = true
				}
				if la && lb {
					out.upper[s] = true
				}
			} else {
				if ga && gb {
					out.lower[s] = true
				}
				if la || lb {
					out.upper[s] = true
				}
			}
		}
		return out
	}
	// walk the loop body: locals defined by :=, then the stores to Position/Length
	var posB, endB *bounds
	var lenExpr ast.Expr
	okShape := false
	closeLower := func(b bounds) {
		for k := range b.lower {
			if strings.HasPrefix(k, "v:") {
				for obj, ob := range env {
					if "v:"+obj.Name() == k {
						for kk := range ob.lower {
							b.lower[kk] = true
						}
					}
				}
			}
		}
	}
	ast.Inspect(f.Body, func(q ast.Node) bool {
		// the clamp written as a test and an assignment: if x < E { x = E } is x = max(x, E); if x > E { x = E } is min
		topLevel := func(n ast.Node) bool {
			blk, ok := w.parent[n].(*ast.BlockStmt)
			if !ok {
				return false
			}
			switch w.parent[blk].(type) {
			case *ast.RangeStmt, *ast.ForStmt, *ast.FuncDecl:
				return true
			}
			return false
		}
		if is, ok := q.(*ast.IfStmt); ok && is.Init == nil && is.Else == nil && len(is.Body.List) == 1 && topLevel(is) {
			if as, ok := is.Body.List[0].(*ast.AssignStmt); ok && as.Tok == token.ASSIGN && len(as.Lhs) == 1 && len(as.Rhs) == 1 {
				if cmp, ok := unparen(is.Cond).(*ast.BinaryExpr); ok {
					if xid := identOf(as.Lhs[0]); xid != nil {
						xobj := info.Uses[xid]
						_, tracked := env[xobj]
						var other ast.Expr
						op := cmp.Op
						if id := identOf(cmp.X); id != nil && info.Uses[id] == xobj {
							other = cmp.Y
						} else if id := identOf(cmp.Y); id != nil && info.Uses[id] == xobj {
							other = cmp.X
							op = map[token.Token]token.Token{token.LSS: token.GTR, token.GTR: token.LSS, token.LEQ: token.GEQ, token.GEQ: token.LEQ}[op]
						}
						if tracked && other != nil && exprStr(other) == exprStr(as.Rhs[0]) && isIntType(xobj.Type()) {
							switch op {
							case token.LSS, token.LEQ:
								b := combine(true, xid, other)
								closeLower(b)
								env[xobj] = b
								return false
							case token.GTR, token.GEQ:
								b := combine(false, xid, other)
								closeLower(b)
								env[xobj] = b
								return false
							}
						}
					}
				}
			}
		}
		as, ok := q.(*ast.AssignStmt)
		if !ok {
			return true
		}
		// a tracked local assigned anew
		if as.Tok == token.ASSIGN && len(as.Lhs) == len(as.Rhs) {
			for i, l := range as.Lhs {
				if id := identOf(l); id != nil {
					if _, tracked := env[info.Uses[id]]; tracked {
						b := bnd(as.Rhs[i])
						closeLower(b)
						if !topLevel(as) {
							// assigned on some paths only: nothing is known afterwards
							b = bounds{map[string]bool{}, map[string]bool{}}
						}
						env[info.Uses[id]] = b
					}
				}
			}
		}
		if as.Tok == token.DEFINE && len(as.Lhs) == len(as.Rhs) {
			for i, l := range as.Lhs {
				if id := identOf(l); id != nil {
					b := bnd(as.Rhs[i])
					// close under known lower bounds: if x >= v:start and start >= 0 then x >= 0; same for upper
					for k := range b.lower {
						if strings.HasPrefix(k, "v:") {
							for obj, ob := range env {
								if "v:"+obj.Name() == k {
									for kk := range ob.lower {
										b.lower[kk] = true
									}
								}
							}
						}
					}
					env[info.Defs[id]] = b
				}
			}
			return true
		}
		// stores: X.Position, X.Length = start, end-start
		if as.Tok == token.ASSIGN && len(as.Lhs) == len(as.Rhs) {
			for i, l := range as.Lhs {
				fld := lastField(info, l)
				if fld == nil || !isRuneField(fld) {
					continue
				}
				switch fld.Name() {
				case "Position":
					b := bnd(as.Rhs[i])
					posB = &b
				case "Length":
					lenExpr = as.Rhs[i]
					if be, ok := unparen(as.Rhs[i]).(*ast.BinaryExpr); ok && be.Op == token.SUB {
						b := bnd(be.X)
						endB = &b
						okShape = true
					}
				}
			}
		}
		return true
	})
	if posB == nil || lenExpr == nil {
		c.ob("C15.R5", f.Name+"/assigns-position-and-length", w.Pos(f.Decl.Pos()), false, "the clamping function does not assign both Position and Length of every attribute")
		return
	}
	okPos := posB.lower["0"] && posB.upper["L"]
	c.ob("C15.R5", f.Name+"/position-bounds", w.Pos(f.Decl.Pos()), okPos, map[bool]string{true: "0 <= Position <= text length follows from the min/max structure", false: "0 <= Position <= text length does not follow from the expression assigned to Position"}[okPos])
	if !okShape || endB == nil {
		c.ob("C15.R5", f.Name+"/length-bounds", w.Pos(lenExpr.Pos()), false, "Length is not of the form end - start with a bounded end")
		return
	}
	be := unparen(lenExpr).(*ast.BinaryExpr)
	startSym := sym(be.Y)
	okLen := startSym != "" && endB.lower[startSym] && endB.upper["L"]
	// and Position is that start
	c.ob("C15.R5", f.Name+"/length-bounds", w.Pos(lenExpr.Pos()), okLen, map[bool]string{true: "Length = end - start with start <= end <= text length: 0 <= Length and Position + Length <= text length", false: "it does not follow from the min/max structure that start <= end <= text length: Length could be negative or reach beyond the text"}[okLen])
}

// stripIndexes removes index and dereference steps so that the root identifier of a[i].f or (*p).f can be found.
func stripIndexes(e ast.Expr) ast.Expr {
	for {
		switch x := unparen(e).(type) {
		case *ast.IndexExpr:
			e = x.X
		case *ast.StarExpr:
			e = x.X
		case *ast.SelectorExpr:
			inner := stripIndexes(x.X)
			if inner == x.X {
				return x
			}
			return &ast.SelectorExpr{X: inner, Sel: x.Sel}
		default:
			return x
		}
	}
}
