package main

// selftest.go — rule-sensitivity self-test (thorough tier): a catalogue of seeded single-site breakages (and of
// behaviour-preserving variants) is applied through go/packages overlays — no copy of /repo is written — in
// sub-processes; every breaking variant must be reported by the expected rule, every preserving variant by none.

import (
	"encoding/json"
	"fmt"
	"os"
	"os/exec"
	"path/filepath"
	"sort"
	"strings"
	"sync"
)

type variant struct {
	Name   string `json:"name"`
	Prop   string `json:"prop"` // property whose check is run
	Rule   string `json:"rule"` // expected rule id (prefix), "none" = must not be flagged
	File   string `json:"file"` // path relative to the repository root
	Old    string `json:"old"`  // exact substring, must occur exactly once
	New    string `json:"new"`  // replacement
	File2  string `json:"file2,omitempty"`
	Old2   string `json:"old2,omitempty"`
	New2   string `json:"new2,omitempty"`
	Patch  string `json:"patch,omitempty"` // unified diff (path relative to the verification directory), alternative to file/old/new
	Suite  string `json:"suite"`           // observed outcome of the unedited test suite on the variant: pass|fail|unknown
	Origin string `json:"origin"`          // calibration | revert-of-fix | seeded | instance-class | preserving
}

type variantResult struct {
	Name    string   `json:"name"`
	Rule    string   `json:"expected_rule"`
	Status  string   `json:"status"` // flagged | silent(expected) | MISSED | FALSE-ALARM | skipped | error
	Flagged []string `json:"flagged_rules"`
	Detail  string   `json:"detail,omitempty"`
}

func loadCatalogue(verif string) ([]variant, error) {
	var all []variant
	files, _ := filepath.Glob(filepath.Join(verif, "selftest", "*.json"))
	sort.Strings(files)
	for _, f := range files {
		b, err := os.ReadFile(f)
		if err != nil {
			return nil, err
		}
		var vs []variant
		if err := json.Unmarshal(b, &vs); err != nil {
			return nil, fmt.Errorf("%s: %v", f, err)
		}
		all = append(all, vs...)
	}
	return all, nil
}

func applyOne(repo, file, old, new string, dir string, idx int) (string, string, error) {
	path := filepath.Join(repo, file)
	b, err := os.ReadFile(path)
	if err != nil {
		return "", "", err
	}
	s := string(b)
	if strings.Count(s, old) != 1 {
		return "", "", fmt.Errorf("anchor occurs %d times", strings.Count(s, old))
	}
	out := filepath.Join(dir, fmt.Sprintf("v%d_%s", idx, filepath.Base(file)))
	if err := os.WriteFile(out, []byte(strings.Replace(s, old, new, 1)), 0o644); err != nil {
		return "", "", err
	}
	return path, out, nil
}

// applyPatch copies the files a unified diff touches from the repository into a scratch directory (outside /repo and
// /verif), applies the diff there with `git apply`, and returns the overlay arguments original=patched.
func applyPatch(repo, patch, scratch string) ([]string, error) {
	b, err := os.ReadFile(patch)
	if err != nil {
		return nil, err
	}
	var files []string
	for _, line := range strings.Split(string(b), "\n") {
		if strings.HasPrefix(line, "+++ b/") {
			files = append(files, strings.TrimPrefix(line, "+++ b/"))
		}
	}
	if len(files) == 0 {
		return nil, fmt.Errorf("no file in patch")
	}
	for _, f := range files {
		src := filepath.Join(repo, f)
		dst := filepath.Join(scratch, f)
		if err := os.MkdirAll(filepath.Dir(dst), 0o755); err != nil {
			return nil, err
		}
		content, err := os.ReadFile(src)
		if err != nil {
			if os.IsNotExist(err) {
				continue // a file the patch creates
			}
			return nil, err
		}
		if err := os.WriteFile(dst, content, 0o644); err != nil {
			return nil, err
		}
	}
	cmd := exec.Command("git", "apply", "--unsafe-paths", "--whitespace=nowarn", patch)
	cmd.Dir = scratch
	cmd.Env = append(os.Environ(), "GIT_DIR=/nonexistent", "GIT_CEILING_DIRECTORIES="+filepath.Dir(scratch))
	if out, err := cmd.CombinedOutput(); err != nil {
		return nil, fmt.Errorf("%v: %s", err, firstLine(strings.TrimSpace(string(out))))
	}
	var ovs []string
	for _, f := range files {
		ovs = append(ovs, filepath.Join(repo, f)+"="+filepath.Join(scratch, f))
	}
	return ovs, nil
}

func runVariants(prop, repo, verif string, vs []variant) []variantResult {
	self, _ := os.Executable()
	dir, err := os.MkdirTemp("", "ysgocheck-selftest-")
	if err != nil {
		return []variantResult{{Name: "tempdir", Status: "error", Detail: err.Error()}}
	}
	defer os.RemoveAll(dir)
	results := make([]variantResult, len(vs))
	sem := make(chan struct{}, 8)
	var wg sync.WaitGroup
	for i, v := range vs {
		wg.Add(1)
		go func(i int, v variant) {
			defer wg.Done()
			sem <- struct{}{}
			defer func() { <-sem }()
			res := variantResult{Name: v.Name, Rule: v.Rule}
			defer func() { results[i] = res }()
			args := []string{"-prop", prop, "-repo", repo, "-verif", verif, "-json", "-noevidence"}
			if v.Patch != "" {
				ovs, err := applyPatch(repo, filepath.Join(verif, v.Patch), filepath.Join(dir, fmt.Sprintf("p%d", i)))
				if err != nil {
					res.Status, res.Detail = "skipped", "patch does not apply to the current tree: "+err.Error()
					return
				}
				for _, ov := range ovs {
					args = append(args, "-overlay", ov)
				}
			} else {
				orig, repl, err := applyOne(repo, v.File, v.Old, v.New, dir, i*2)
				if err != nil {
					res.Status, res.Detail = "skipped", "patch does not apply to the current tree: "+err.Error()
					return
				}
				args = append(args, "-overlay", orig+"="+repl)
			}
			if v.File2 != "" {
				orig2, repl2, err := applyOne(repo, v.File2, v.Old2, v.New2, dir, i*2+1)
				if err != nil {
					res.Status, res.Detail = "skipped", "second patch does not apply: "+err.Error()
					return
				}
				args = append(args, "-overlay", orig2+"="+repl2)
			}
			cmd := exec.Command(self, args...)
			cmd.Env = append(os.Environ(), "VERIF_TIER=quick")
			out, _ := cmd.CombinedOutput()
			var jo struct {
				Failed    []Obligation `json:"failed"`
				Undecided []string     `json:"undecided"`
			}
			found := false
			for _, line := range strings.Split(string(out), "\n") {
				if strings.HasPrefix(line, "{\"property\"") {
					if json.Unmarshal([]byte(line), &jo) == nil {
						found = true
					}
				}
			}
			if !found {
				res.Status = "error"
				res.Detail = "variant could not be analysed (does it type-check?): " + firstLine(strings.TrimSpace(string(out)))
				return
			}
			seen := map[string]bool{}
			for _, o := range jo.Failed {
				if !seen[o.Rule] {
					seen[o.Rule] = true
					res.Flagged = append(res.Flagged, o.Rule)
				}
			}
			sort.Strings(res.Flagged)
			if v.Rule == "none" {
				if len(jo.Failed) == 0 && len(jo.Undecided) == 0 {
					res.Status = "silent(expected)"
				} else {
					res.Status = "FALSE-ALARM"
					if len(jo.Failed) > 0 {
						res.Detail = jo.Failed[0].Rule + " " + jo.Failed[0].Key + ": " + jo.Failed[0].How
					} else {
						res.Detail = "undecided: " + jo.Undecided[0]
					}
				}
				return
			}
			hit := false
			for _, want := range strings.Split(v.Rule, "|") {
				for r := range seen {
					if strings.HasPrefix(r, want) {
						hit = true
					}
				}
			}
			if hit {
				res.Status = "flagged"
				for _, o := range jo.Failed {
					res.Detail = o.Pos + " " + o.How
					break
				}
			} else {
				res.Status = "MISSED"
				res.Detail = fmt.Sprintf("rules that fired: %v; undecided: %v", res.Flagged, jo.Undecided)
			}
		}(i, v)
	}
	wg.Wait()
	return results
}

// runSelfTest runs the catalogue entries of one property; returns 0 if the checker kept its teeth.
func runSelfTest(prop, repo, verif string, seed int, standalone bool) int {
	res, code := selfTest(prop, repo, verif)
	for _, r := range res {
		fmt.Printf("  selftest %-18s %-60s expect=%-8s %s\n", r.Status, r.Name, r.Rule, firstLine(r.Detail))
	}
	return code
}

func selfTest(prop, repo, verif string) ([]variantResult, int) {
	all, err := loadCatalogue(verif)
	if err != nil {
		return []variantResult{{Name: "catalogue", Status: "error", Detail: err.Error()}}, 2
	}
	var vs []variant
	for _, v := range all {
		if v.Prop == prop {
			vs = append(vs, v)
		}
	}
	// behaviour-preserving refactorings (preserving/<id>/patch.diff): no rule of any property may fire on them
	pres, _ := filepath.Glob(filepath.Join(verif, "preserving", "*", "patch.diff"))
	sort.Strings(pres)
	for _, p := range pres {
		rel, _ := filepath.Rel(verif, p)
		vs = append(vs, variant{Name: "preserving " + filepath.Base(filepath.Dir(p)), Prop: prop, Rule: "none", Patch: rel, Suite: "pass", Origin: "preserving"})
	}
	res := runVariants(prop, repo, verif, vs)
	code := 0
	for _, r := range res {
		switch r.Status {
		case "MISSED", "FALSE-ALARM", "error":
			code = 2
		}
	}
	return res, code
}

func thoroughExtras(c *Ctx, pc *propCheck, repo, verif string, seed int) {
	res, code := selfTest(c.Prop, repo, verif)
	applied, skipped, flagged, silent := 0, 0, 0, 0
	for _, r := range res {
		switch r.Status {
		case "skipped":
			skipped++
		case "flagged":
			applied++
			flagged++
		case "silent(expected)":
			applied++
			silent++
		default:
			applied++
		}
	}
	c.Extra["self_test"] = map[string]interface{}{
		"variants": len(res), "applied": applied, "skipped_patch_does_not_apply": skipped, "breaking_variants_flagged": flagged,
		"preserving_variants_silent": silent, "results": res,
		"note": "each variant is the current /repo source with one seeded edit, analysed through a go/packages overlay in a sub-process; a breaking variant the rule misses, or a preserving variant it flags, makes the run undecided (exit 2)",
	}
	for _, r := range res {
		if r.Status == "MISSED" || r.Status == "FALSE-ALARM" || r.Status == "error" {
			c.undecided("selftest", fmt.Sprintf("%s: variant %q (expected %s): %s", r.Status, r.Name, r.Rule, r.Detail))
		}
	}
	_ = code
	// whole-program cross-check for the properties whose rules depend on reachability
	switch c.Prop {
	case "C05", "C06", "C09", "C10", "C18":
		inv, err := inventoryInSubprocess(repo)
		if err != nil || inv.Error != "" {
			c.undecided("inventory", fmt.Sprintf("whole-program inventory failed: %v %s", err, inv.Error))
		} else {
			c.Extra["whole_program"] = inv
			if len(inv.MissingInQuick) > 0 {
				c.undecided("inventory", fmt.Sprintf("the VTA call graph over the whole program reaches %d module functions that the quick tier's reachability misses (e.g. %s): reachability-dependent rules may have skipped them", len(inv.MissingInQuick), inv.MissingInQuick[0]))
			}
		}
	}
	if pc.thorough != nil {
		pc.thorough(c)
	}
}

func replayFile(c *Ctx, path string) {
	b, err := os.ReadFile(path)
	if err != nil {
		fmt.Printf("replay: cannot read %s: %v\n", path, err)
		return
	}
	var in struct {
		Violations []Obligation `json:"violations"`
	}
	if err := json.Unmarshal(b, &in); err != nil {
		fmt.Printf("replay: %v\n", err)
		return
	}
	for _, v := range in.Violations {
		status := "no longer enumerated (construct gone)"
		for _, o := range c.Obs {
			if o.Rule == v.Rule && o.Key == v.Key {
				if o.OK {
					status = "now discharged: " + o.How
				} else {
					status = "STILL FAILS at " + o.Pos + ": " + o.How
				}
			}
		}
		fmt.Printf("replay %s [%s] recorded at %s -> %s\n", v.Rule, v.Key, v.Pos, status)
	}
}
