package main

// selftest.go — rule-sensitivity self-test (thorough tier) and replay. Filled in below.

import "fmt"

func runSelfTest(prop, repo, verif string, seed int, standalone bool) int {
	fmt.Println("selftest: not built yet")
	return 0
}

func thoroughExtras(c *Ctx, pc *propCheck, repo, verif string, seed int) {}

func replayFile(c *Ctx, path string) {}
