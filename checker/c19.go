package main

// c19.go — C19: the conversion clauses (R1–R3); the numeric clauses are decided in c19num.go (R4, R5).

import (
	"go/ast"
	"go/constant"
	"go/types"
	"strings"
)

func init() {
	registry["C19"] = &propCheck{
		meta: propMeta{
			Level: "other",
			Explanation: "Decides the conversion clauses of the property, which are visible in the shape of the three conversion built-ins: (R1) converting a value to the type it already has returns it unchanged — bool() and number() return their argument itself under the test that the own alternative is present, string() returns NewString of the argument's display form, which for strings is the string verbatim (C04.R4); " +
				"(R2) a string that is not a number / boolean is an error — in bool() and number() every nil-error return reached under the test that the String alternative is present returns the first result of strconv.ParseBool / strconv.ParseFloat(…, 64) applied to the string exactly as stored, and the parse error of that very call is entailed nil there (so a failed parse cannot yield a value); " +
				"(R3) the round trips number(string(x)) = x and bool(string(b)) = b, by composition: string() prints through Value.ToString for every alternative, whose number formatting is the shortest representation that round-trips and whose boolean constants are True/False (C04.R4, re-evaluated here), and number()/bool() parse that text verbatim with ParseFloat(…, 64) / ParseBool, which invert those formats (A4); " +
				"(R4) the numeric clauses of floor, ceil, inc, dec, integer, decimal and round, by abstract interpretation of the bodies over the nine classes of x = k + t (sign of x × t ∈ {0}, (0,½), {½}, (½,1)) with affine forms a·k+b·t+c and floating-point exactness tracking: a clause is reported as holding only when it holds for every k and t of every class and every step is exact for |x| < 2^52, i.e. for the computed doubles; (R5) round_places with the symbol P = 10^n for n = 0..8 (real-number model) and exactly for n = 0.",
			NotDecided:  "numeric built-ins whose body leaves the interpreted domain (undecided, exit 2 — never a pass); round_places is decided in the real-number model (and exactly for n = 0): the rounding error of x·10^n near or above 2^53 is inherent to the formula and not modelled (the unchanged library is off by more than half a unit for e.g. round_places(16794321.033155564, 8)); which strings strconv.ParseFloat/ParseBool accept as numbers/booleans (nan, inf, 0x1p4, t, 1) is taken as the definition (A4); number(string(x)) = x is decided only as the composition of the two formats (A4), not by evaluating them",
			Assumptions: []string{"A1", "A7 (int is 64 bits wide; float64→int conversions of |x| < 2^52 truncate)", "A4 (math.Floor/Ceil/Trunc/Round/Mod/Modf as documented; strconv.FormatFloat(x,'g'/'f',-1,64), fmt.Sprint(float64) and strconv.Itoa print text that strconv.ParseFloat(…,64) maps back to x for |x| < 2^52; strconv.ParseBool maps \"True\" to true and \"False\" to false)"},
			Trusted:     []string{"go/types", "go/packages loader"},
		},
		run: checkC19,
	}
}

func checkC19(c *Ctx) {
	w := c.W
	wGlobal = w
	c.rule("C19.R1", "own type unchanged: bool()/number() return their argument itself under the test that their own alternative is present; string() returns NewString(argument.ToString()), strings printing verbatim", 3)
	c.rule("C19.R2", "a string that does not parse is an error: the value returned for a String argument is the first result of strconv.ParseBool / ParseFloat(…,64) on the stored string, under the entailed nil parse error of the same call", 2)
	c.rule("C19.R3", "round trips by composition: string() prints every alternative through Value.ToString (formats decided by C04.R4), number()/bool() parse that text verbatim", 3)
	p := w.Pkg("")
	info := p.TypesInfo
	// the built-ins registered under "string", "bool", "number"
	conv := map[string]*Func{}
	// every keyed element of the package (function bodies and package-level tables alike)
	for _, file := range p.Syntax {
		if strings.HasSuffix(w.Fset.Position(file.Pos()).Filename, "_test.go") {
			continue
		}
		ast.Inspect(file, func(n ast.Node) bool {
			kv, ok := n.(*ast.KeyValueExpr)
			if !ok {
				return true
			}
			tv, ok := info.Types[kv.Key]
			if !ok || tv.Value == nil || tv.Value.Kind() != constant.String {
				return true
			}
			name := constant.StringVal(tv.Value)
			if name != "string" && name != "bool" && name != "number" {
				return true
			}
			val := unparen(kv.Value)
			// a conversion to the function type: YarnSpinnerFunction(toString)
			if cv, isCall := val.(*ast.CallExpr); isCall && len(cv.Args) == 1 {
				if ftv, ok := info.Types[cv.Fun]; ok && ftv.IsType() {
					val = unparen(cv.Args[0])
				}
			}
			if id := identOf(val); id != nil && val == ast.Expr(id) {
				if fn, ok := info.Uses[id].(*types.Func); ok {
					if g := w.byObj[fn]; g != nil && g.Body != nil && g.Sig().Params().Len() == 1 && g.Sig().Results().Len() == 2 && isValuePtr(g.Sig().Results().At(0).Type()) {
						conv[name] = g
					}
				}
			}
			return true
		})
	}
	for _, name := range []string{"string", "bool", "number"} {
		if conv[name] == nil {
			c.undecided("C19.R1", "the built-in registered under \""+name+"\" was not found (a map entry \""+name+"\": <function>)")
		}
	}
	if len(conv) < 3 {
		return
	}
	own := map[string]string{"string": "String", "bool": "Boolean", "number": "Number"}
	parser := map[string]string{"bool": "strconv.ParseBool", "number": "strconv.ParseFloat"}
	ctorOf := map[string]string{"string": "NewString", "bool": "NewBoolean", "number": "NewNumber"}
	for _, name := range []string{"string", "bool", "number"} {
		f := conv[name]
		c.fn(f)
		x := w.expander(f)
		e := w.ent(f)
		argS := "$" + f.Sig().Params().At(0).Name() + "[0]"
		// an expression node for <arg>.<Alt>, to state "the alternative is present"
		altExpr := map[string]ast.Expr{}
		walkNoLit(f.Body, func(n ast.Node) bool {
			if sel, ok := n.(*ast.SelectorExpr); ok && x.str(sel.X) == argS {
				if _, have := altExpr[sel.Sel.Name]; !have {
					altExpr[sel.Sel.Name] = sel
				}
			}
			return true
		})
		nOwn, nStr, nAny := 0, 0, 0
		walkNoLit(f.Body, func(n ast.Node) bool {
			ret, ok := n.(*ast.ReturnStmt)
			if !ok || len(ret.Results) != 2 || !isNilExpr(info, ret.Results[1]) {
				return true
			}
			nAny++
			at := site{pos: ret.Pos(), anc: ret}
			kc := keyCtx{e: e, s: &at}
			present := func(alt string) bool {
				ae := altExpr[alt]
				if ae == nil {
					return false
				}
				ok, _ := e.Prove(ret, e.nn(kc, ae))
				return ok
			}
			rs := x.str(ret.Results[0])
			pos := w.Pos(ret.Pos())
			if name == "string" {
				// one form for every alternative: NewString(arg.ToString())
				okS := rs == "github.com/remieven/ysgo/variable.NewString("+argS+".ToString())" || (present("String") && rs == argS)
				nOwn++
				c.ob("C19.R1", f.Name+"/return#"+itoa(nAny), pos, okS, map[bool]string{true: "string() returns NewString(argument.ToString()): a string argument comes back verbatim (C04.R4), and every alternative is printed by Value.ToString", false: "string() returns " + shorten(rs, 100) + ", not NewString of the argument's display form"}[okS])
				return true
			}
			switch {
			case present(own[name]):
				nOwn++
				okI := rs == argS || rs == "github.com/remieven/ysgo/variable."+ctorOf[name]+"("+argS+"."+own[name]+")"
				c.ob("C19.R1", f.Name+"/own-type#"+itoa(nOwn), pos, okI, map[bool]string{true: name + "() of a " + own[name] + " returns the argument unchanged", false: name + "() of a value that already is a " + own[name] + " returns " + shorten(rs, 100) + ", not the argument"}[okI])
			case present("String"):
				nStr++
				key := f.Name + "/string-argument#" + itoa(nStr)
				// NewX(v) with v the first result of the parser on the stored string, error entailed nil
				call, ok := unparen(ret.Results[0]).(*ast.CallExpr)
				if !ok || len(call.Args) != 1 || calleeOf(info, call) == nil || calleeOf(info, call).Name() != ctorOf[name] {
					c.ob("C19.R2", key, pos, false, name+"() of a string returns "+shorten(rs, 100)+", not "+ctorOf[name]+" of the parsed text")
					return true
				}
				vs := x.str(call.Args[0])
				wantPrefix := parser[name] + "(" + argS + ".String"
				okParse := strings.HasPrefix(vs, wantPrefix) && strings.HasSuffix(vs, ")#0")
				if name == "number" && okParse {
					okParse = vs == parser[name]+"("+argS+".String,64)#0"
				}
				if name == "bool" && okParse {
					okParse = vs == parser[name]+"("+argS+".String)#0"
				}
				if !okParse {
					c.ob("C19.R2", key, pos, false, name+"() of a string yields "+shorten(vs, 100)+", not the result of "+parser[name]+" on the string as stored"+map[string]string{"number": " with 64-bit precision", "bool": ""}[name]+": text that is not a "+name+" could become a value, or the value could differ from the text")
					return true
				}
				// the error of the same call
				var errIdent *ast.Ident
				if id := identOf(call.Args[0]); id != nil {
					if v, ok := info.Uses[id].(*types.Var); ok {
						for _, a := range e.assigns[v] {
							if as, ok := a.(*ast.AssignStmt); ok && len(as.Lhs) == 2 && len(as.Rhs) == 1 {
								errIdent = identOf(as.Lhs[1])
							}
						}
					}
				}
				if errIdent == nil || errIdent.Name == "_" {
					c.ob("C19.R2", key, pos, false, "the error of "+parser[name]+" is discarded: a string that is not a "+name+" would be converted (to the zero value) instead of being reported")
					return true
				}
				okErr, how := e.Prove(ret, Not{e.nn(kc, errIdent)})
				c.ob("C19.R2", key, pos, okErr, map[bool]string{true: "the parsed value is returned only when " + parser[name] + " reported no error (" + how + "), from the string as stored", false: "the parsed value can be returned although " + parser[name] + " failed: " + how}[okErr])
			}
			return true
		})
		if name != "string" && nOwn == 0 {
			c.ob("C19.R1", f.Name+"/own-type", w.Pos(f.Decl.Pos()), false, name+"() has no return under a test that its argument already is a "+own[name])
		}
		if name != "string" && nStr == 0 {
			c.ob("C19.R2", f.Name+"/string-argument", w.Pos(f.Decl.Pos()), false, name+"() has no return under a test that its argument is a string")
		}
	}
	checkC19Numeric(c)
	// R3: the formats agree (composition)
	c04 := otherRuleObligations(w, "C04.R4")
	for _, part := range []string{"integral-numbers", "other-numbers", "booleans", "strings"} {
		found, ok := false, true
		for _, o := range c04 {
			if o.Rule == "C04.R4" && strings.HasSuffix(o.Key, "/"+part) {
				found = true
				if !o.OK {
					ok = false
				}
			}
		}
		if part == "strings" {
			continue // R1's dependency, reported there
		}
		if !found {
			c.undecided("C19.R3", "premise C04.R4 produced no obligation for "+part+" (its anchors were lost)")
			continue
		}
		c.ob("C19.R3", "Value.ToString/"+part, "-", found && ok, map[bool]string{true: "the display form of " + part + " is the one the parsers invert (C04.R4 holds)", false: "the display form of " + part + " is not the one number()/bool() invert (C04.R4 fails or lost its anchor): a value would not survive string() followed by number()/bool()"}[found && ok])
	}
}
