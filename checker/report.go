package main

// report.go — obligations, verdicts, evidence files, known findings.

import (
	"encoding/json"
	"fmt"
	"os"
	"path/filepath"
	"sort"
	"strings"
	"time"
)

type Obligation struct {
	Rule       string `json:"rule"`
	Key        string `json:"construct"` // line-independent instance key: function/instance
	Pos        string `json:"pos"`
	OK         bool   `json:"discharged"`
	How        string `json:"how"` // how it was discharged, or why it fails
	Nontrivial bool   `json:"-"`
}

var verbose bool

type RuleInfo struct {
	ID    string `json:"id"`
	Text  string `json:"text"`
	Min   int    `json:"min_instances"`
	Count int    `json:"instances"`
}

type Ctx struct {
	Prop          string
	Tier          string
	W             *World
	Obs           []Obligation
	Rules         []*RuleInfo
	ruleByID      map[string]*RuleInfo
	Undecided     []string
	minimaChecked bool
	Notes         []string
	Funcs         map[string]bool // functions analysed
	CallSites     int
	Extra         map[string]interface{}
	ovFiles       map[string]string
	start         time.Time
}

func newCtx(prop, tier string, w *World) *Ctx {
	return &Ctx{Prop: prop, Tier: tier, W: w, ruleByID: map[string]*RuleInfo{}, Funcs: map[string]bool{}, Extra: map[string]interface{}{}, start: time.Now()}
}

// rule declares a rule with its text and the minimum number of instances confirmed by hand.
func (c *Ctx) rule(id, text string, min int) {
	if c.ruleByID[id] != nil {
		return
	}
	r := &RuleInfo{ID: id, Text: text, Min: min}
	c.Rules = append(c.Rules, r)
	c.ruleByID[id] = r
}

func (c *Ctx) ob(rule, key, pos string, ok bool, how string) {
	c.obN(rule, key, pos, ok, how, true)
}

func (c *Ctx) obN(rule, key, pos string, ok bool, how string, nontrivial bool) {
	r := c.ruleByID[rule]
	if r == nil {
		panic("undeclared rule " + rule)
	}
	r.Count++
	c.Obs = append(c.Obs, Obligation{Rule: rule, Key: key, Pos: pos, OK: ok, How: how, Nontrivial: nontrivial})
}

func (c *Ctx) undecided(rule, msg string) {
	c.Undecided = append(c.Undecided, rule+": "+msg)
}

func (c *Ctx) note(format string, a ...interface{}) {
	c.Notes = append(c.Notes, fmt.Sprintf(format, a...))
}

func (c *Ctx) fn(f *Func) {
	if f != nil {
		c.Funcs[f.Name] = true
	}
}

// ---------- known findings ----------

type knownFinding struct {
	prop, rule, construct, text string
}

func readKnown(path string) ([]knownFinding, error) {
	b, err := os.ReadFile(path)
	if err != nil {
		if os.IsNotExist(err) {
			return nil, nil
		}
		return nil, err
	}
	var out []knownFinding
	for _, line := range strings.Split(string(b), "\n") {
		line = strings.TrimSpace(line)
		if !strings.HasPrefix(line, "open:") {
			continue
		}
		k := knownFinding{}
		rest := strings.Fields(strings.TrimPrefix(line, "open:"))
		var text []string
		for _, f := range rest {
			switch {
			case strings.HasPrefix(f, "property=") && k.prop == "":
				k.prop = strings.TrimPrefix(f, "property=")
			case strings.HasPrefix(f, "rule=") && k.rule == "":
				k.rule = strings.TrimPrefix(f, "rule=")
			case strings.HasPrefix(f, "construct=") && k.construct == "":
				k.construct = strings.TrimPrefix(f, "construct=")
			default:
				text = append(text, f)
			}
		}
		k.text = strings.Join(text, " ")
		if k.prop == "" || k.rule == "" || k.construct == "" {
			return nil, fmt.Errorf("malformed open: line in %s: %q", path, line)
		}
		out = append(out, k)
	}
	return out, nil
}

// ---------- finishing a run ----------

type evidence struct {
	PropertyID  string                 `json:"property_id"`
	Tier        string                 `json:"tier"`
	Seed        int                    `json:"seed"`
	Level       string                 `json:"level"`
	Coverage    map[string]interface{} `json:"coverage"`
	Assumptions []string               `json:"assumptions"`
	WallS       float64                `json:"wall_s"`
	Violations  int                    `json:"violations"`
}

type propMeta struct {
	Level       string
	Explanation string
	NotDecided  string
	Assumptions []string
	Trusted     []string
}

// checkMinima: a rule that matched fewer instances than were confirmed by hand (and did not fail) may have lost its anchor.
func (c *Ctx) checkMinima() {
	if c.minimaChecked {
		return
	}
	c.minimaChecked = true
	failedRule := map[string]bool{}
	for _, o := range c.Obs {
		if !o.OK {
			failedRule[o.Rule] = true
		}
	}
	for _, r := range c.Rules {
		if r.Count < r.Min && !failedRule[r.ID] {
			c.undecided(r.ID, fmt.Sprintf("matched %d instances, fewer than the %d confirmed by hand: the rule may have lost its anchor", r.Count, r.Min))
		}
	}
}

// finish prints the summary, writes evidence (+ violations file) and returns the exit code.
func (c *Ctx) finish(meta propMeta, verifDir string, seed int, jsonOut bool, writeEvidence bool) int {
	known, kerr := readKnown(filepath.Join(verifDir, "known_findings.txt"))
	if kerr != nil {
		c.undecided("known_findings", kerr.Error())
	}
	c.checkMinima()
	sort.SliceStable(c.Obs, func(i, j int) bool {
		if c.Obs[i].Rule != c.Obs[j].Rule {
			return c.Obs[i].Rule < c.Obs[j].Rule
		}
		return false
	})
	var viol, knownHit []Obligation
	discharged, nontrivial := 0, 0
	seenKey := map[string]bool{}
	distinct := 0
	for _, o := range c.Obs {
		if o.OK {
			discharged++
			if o.Nontrivial && !seenKey[o.Rule+"|"+o.Key] {
				nontrivial++
			}
		} else {
			isKnown := false
			for _, k := range known {
				if k.prop == c.Prop && k.rule == o.Rule && k.construct == o.Key {
					isKnown = true
					fmt.Printf("KNOWN-FINDING: property=%s rule=%s construct=%s %s\n", c.Prop, o.Rule, o.Key, k.text)
				}
			}
			if isKnown {
				knownHit = append(knownHit, o)
			} else {
				viol = append(viol, o)
			}
		}
		if !seenKey[o.Rule+"|"+o.Key] {
			seenKey[o.Rule+"|"+o.Key] = true
			distinct++
		}
	}
	wall := time.Since(c.start).Seconds()

	if jsonOut {
		type jo struct {
			Prop      string       `json:"property"`
			Failed    []Obligation `json:"failed"`
			Undecided []string     `json:"undecided"`
			Total     int          `json:"obligations"`
		}
		b, _ := json.Marshal(jo{c.Prop, append(viol, knownHit...), c.Undecided, len(c.Obs)})
		fmt.Println(string(b))
	}

	// human-readable summary
	fmt.Printf("%s tier=%s: %d obligations over %d rules, %d discharged, %d violations, %d known findings, %d undecided; %d functions analysed; %.1fs\n",
		c.Prop, c.Tier, len(c.Obs), len(c.Rules), discharged, len(viol), len(knownHit), len(c.Undecided), len(c.Funcs), wall)
	for _, r := range c.Rules {
		fmt.Printf("  rule %-9s instances=%-3d (min %d)  %s\n", r.ID, r.Count, r.Min, firstLine(r.Text))
	}
	for _, n := range c.Notes {
		fmt.Printf("  note: %s\n", n)
	}
	for _, u := range c.Undecided {
		fmt.Printf("UNDECIDED property=%s %s\n", c.Prop, u)
	}
	for _, o := range viol {
		fmt.Printf("  FAIL %s %s [%s] %s\n", o.Rule, o.Pos, o.Key, o.How)
	}
	if verbose {
		for _, o := range c.Obs {
			if o.OK {
				fmt.Printf("  ok   %s %s [%s] %s\n", o.Rule, o.Pos, o.Key, o.How)
			}
		}
	}

	evDir := filepath.Join(verifDir, "evidence")
	violPath := filepath.Join(evDir, c.Prop+".violations.json")
	if writeEvidence {
		os.MkdirAll(evDir, 0o755)
		samples := []interface{}{}
		perRule := map[string]int{}
		for _, o := range c.Obs {
			if perRule[o.Rule] < 4 && len(samples) < 60 {
				perRule[o.Rule]++
				samples = append(samples, o)
			}
		}
		fnames := []string{}
		for f := range c.Funcs {
			fnames = append(fnames, f)
		}
		sort.Strings(fnames)
		cov := map[string]interface{}{
			"explanation":         meta.Explanation,
			"not_decided":         meta.NotDecided,
			"obligations":         len(c.Obs),
			"discharged":          discharged,
			"evaluations":         len(c.Obs),
			"distinct_nontrivial": nontrivial,
			"rule":                "every instance of every rule below is enumerated from the source loaded on this run (the space is the code: finite, enumerated completely); distinct = distinct (rule, construct) keys; non-trivial = discharged by an ENT/EVT/FLOW/TAB/BCE argument about the construct rather than by syntactic absence",
			"rules":               c.Rules,
			"samples":             samples,
			"checker_cmd":         fmt.Sprintf("/verif/bin/ysgocheck -prop %s -tier %s", c.Prop, c.Tier),
			"trusted_base":        meta.Trusted,
			"exhaustive":          true,
			"functions_analysed":  fnames,
			"call_sites":          c.CallSites,
			"distinct_constructs": distinct,
			"undecided":           c.Undecided,
			"known_findings_hit":  len(knownHit),
			"notes":               c.Notes,
			"repo":                c.W.Repo,
		}
		for k, v := range c.Extra {
			cov[k] = v
		}
		ev := evidence{PropertyID: c.Prop, Tier: c.Tier, Seed: seed, Level: meta.Level, Coverage: cov, Assumptions: meta.Assumptions, WallS: wall, Violations: len(viol)}
		b, _ := json.MarshalIndent(ev, "", " ")
		if err := os.WriteFile(filepath.Join(evDir, c.Prop+".json"), append(b, '\n'), 0o644); err != nil {
			fmt.Printf("UNDECIDED property=%s cannot write evidence: %v\n", c.Prop, err)
			return 2
		}
		if len(viol) > 0 {
			vb, _ := json.MarshalIndent(map[string]interface{}{"property": c.Prop, "violations": viol, "replay": "re-run: /verif/bin/ysgocheck -prop " + c.Prop + " -replay " + violPath}, "", " ")
			os.WriteFile(violPath, append(vb, '\n'), 0o644)
		} else {
			os.Remove(violPath)
		}
	}
	if len(viol) > 0 {
		fmt.Printf("VIOLATION property=%s replay=%s\n", c.Prop, violPath)
		return 1
	}
	if len(c.Undecided) > 0 {
		return 2
	}
	return 0
}

func firstLine(s string) string {
	if i := strings.IndexByte(s, '\n'); i >= 0 {
		s = s[:i]
	}
	if len(s) > 150 {
		s = s[:147] + "..."
	}
	return s
}
