package main

// normalize_inline.go — the rewriting itself: which calls are replaced and by what.

import (
	"fmt"
	"go/ast"
	"go/token"
	"go/types"
	"regexp"
	"strconv"

	"golang.org/x/tools/go/ast/astutil"
	"golang.org/x/tools/go/packages"
)

type inlCtx struct {
	n        *normalizer
	pkg      *packages.Package
	info     *types.Info
	file     *ast.File
	fd       *ast.FuncDecl
	self     *types.Func
	changed  bool
	resultsN []int // result counts of the enclosing functions (declaration, then literals)
	names    map[string]bool
	root     ast.Node // the declaration being rewritten (function, or package-level variable declaration)
	rootName string
	// set while a directly deferred helper is inlined into a deferred literal: recover() stays a direct call of the
	// deferred function, so its meaning is kept
	allowRecover bool
	closures     map[*types.Var]ast.Stmt // local closures some call of which was spliced -> their binding
}

func (n *normalizer) rewriteFunc(pkg *packages.Package, file *ast.File, fd *ast.FuncDecl) bool {
	c := &inlCtx{n: n, pkg: pkg, info: pkg.TypesInfo, file: file, fd: fd, root: fd, rootName: declName(fd)}
	c.self, _ = pkg.TypesInfo.Defs[fd.Name].(*types.Func)
	c.names = map[string]bool{}
	identNames(fd, c.names)
	nres := 0
	if fd.Type.Results != nil {
		nres = fd.Type.Results.NumFields()
	}
	c.resultsN = []int{nres}
	c.scalarReplace()
	fd.Body.List = c.list(fd.Body.List)
	c.closureCleanup()
	if c.changed {
		propagateCopies(fd)
	}
	return c.changed
}

// rewriteVarDecl: the initialisers of a package-level variable declaration (function values in tables, literals).
func (n *normalizer) rewriteVarDecl(pkg *packages.Package, file *ast.File, gd *ast.GenDecl) bool {
	c := &inlCtx{n: n, pkg: pkg, info: pkg.TypesInfo, file: file, root: gd, rootName: "package-level variable"}
	c.names = map[string]bool{}
	identNames(gd, c.names)
	c.resultsN = []int{0}
	for _, sp := range gd.Specs {
		vs, ok := sp.(*ast.ValueSpec)
		if !ok {
			continue
		}
		if len(vs.Names) > 0 {
			c.rootName = "var " + vs.Names[0].Name
		}
		for i := range vs.Values {
			vs.Values[i] = c.exprRewrite(vs.Values[i])
		}
	}
	return c.changed
}

// orig returns the node type information is recorded for.
func (c *inlCtx) orig(n ast.Node) ast.Node {
	if o, ok := c.n.back[n]; ok {
		return o
	}
	return n
}

func (c *inlCtx) useOf(id *ast.Ident) types.Object {
	o, _ := c.orig(id).(*ast.Ident)
	if o == nil {
		return nil
	}
	return c.info.Uses[o]
}

func (c *inlCtx) defOf(id *ast.Ident) types.Object {
	o, _ := c.orig(id).(*ast.Ident)
	if o == nil {
		return nil
	}
	return c.info.Defs[o]
}

func (c *inlCtx) typeOf(e ast.Expr) types.Type {
	o, _ := c.orig(e).(ast.Expr)
	if o == nil {
		return nil
	}
	if tv, ok := c.info.Types[o]; ok {
		return tv.Type
	}
	if id, ok := o.(*ast.Ident); ok {
		if obj := c.info.Uses[id]; obj != nil {
			return obj.Type()
		}
		if obj := c.info.Defs[id]; obj != nil {
			return obj.Type()
		}
	}
	return nil
}

// candidate: e is a call of a function the reviewed tree does not have and that this pass can inline.
func (c *inlCtx) candidate(e ast.Expr) (*ast.CallExpr, *Func) {
	call, ok := unparen(e).(*ast.CallExpr)
	if !ok {
		return nil, nil
	}
	if _, isClone := c.n.back[call]; isClone {
		return nil, nil // inserted in this round: its identifiers are resolved after the reload
	}
	callee := originFunc(calleeOf(c.info, call))
	if callee == nil {
		// a local closure: `v := func(…) {…}` bound once and only ever called
		if f := c.localClosure(call); f != nil {
			if sig := f.Sig(); sig == nil || (sig.Variadic() && !call.Ellipsis.IsValid()) {
				return nil, nil
			}
			if why := hasUnsupported(f.Body); why != "" {
				c.skip(call, f, "the closure uses "+why)
				return nil, nil
			}
			return call, f
		}
		return nil, nil
	}
	f := c.n.newFns[callee]
	if f == nil || f.Pkg != c.pkg || f.Body == nil || c.n.cyclic[callee] || callee == c.self {
		return nil, nil
	}
	// a pure selector of function values is applied where its result is called (applySelector), never spliced where
	// the result is bound: that would leave the chosen literals in a variable nobody can see through
	if f.Decl != nil && f.Decl.Recv == nil && f.Sig().Results().Len() == 1 {
		if _, isFn := f.Sig().Results().At(0).Type().Underlying().(*types.Signature); isFn && isSelectorBody(f) {
			return nil, nil
		}
	}
	sig := f.Sig()
	if sig.TypeParams().Len() > 0 && c.typeArgsOf(call, f) == nil {
		// a generic function whose instantiation cannot be written here: its text can be spliced only if its body never
		// names a type parameter (the parameters themselves are substituted or bound with :=, which needs no type text)
		mentions := false
		ast.Inspect(f.Body, func(n ast.Node) bool {
			if id, ok := n.(*ast.Ident); ok {
				if tn, ok := f.Pkg.TypesInfo.Uses[id].(*types.TypeName); ok {
					if _, isTP := tn.Type().(*types.TypeParam); isTP {
						mentions = true
					}
				}
			}
			return !mentions
		})
		if mentions {
			c.skip(call, f, "the helper is generic and names a type parameter in its body")
			return nil, nil
		}
	}
	if sig.RecvTypeParams().Len() > 0 && f.Decl != nil {
		// a method of a generic type: its text can be spliced only if it never names a type parameter (the caller's
		// receiver may name them differently)
		mentions := false
		ast.Inspect(f.Decl, func(n ast.Node) bool {
			if id, ok := n.(*ast.Ident); ok && n != ast.Node(f.Decl.Recv) {
				if tn, ok := f.Pkg.TypesInfo.Uses[id].(*types.TypeName); ok {
					if _, isTP := tn.Type().(*types.TypeParam); isTP {
						mentions = true
					}
				}
			}
			if fl, ok := n.(*ast.FieldList); ok && fl == f.Decl.Recv {
				return false
			}
			return !mentions
		})
		if mentions {
			c.skip(call, f, "the helper is a method of a generic type and names a type parameter")
			return nil, nil
		}
	}
	if sig.Variadic() && !call.Ellipsis.IsValid() {
		return nil, nil
	}
	if why := hasUnsupported(f.Body); why != "" && !(why == "recover" && c.allowRecover) {
		c.skip(call, f, "the helper uses "+why)
		return nil, nil
	}
	return call, f
}

func (c *inlCtx) skip(at ast.Node, f *Func, why string) {
	msg := fmt.Sprintf("%s: call of %s left alone (%s)", c.n.w.Pos(at.Pos()), f.Name, why)
	for _, s := range c.n.lg.Skipped {
		if s == msg {
			return
		}
	}
	c.n.lg.Skipped = append(c.n.lg.Skipped, msg)
}

func (c *inlCtx) done(at ast.Node, f *Func, how string) {
	c.changed = true
	c.n.lg.Inlined = append(c.n.lg.Inlined, fmt.Sprintf("%s: %s into %s (%s)", c.n.w.Pos(at.Pos()), f.Name, c.rootName, how))
}

// ---------------------------------------------------------------------------------------------------------------------
// statement lists

func (c *inlCtx) list(in []ast.Stmt) []ast.Stmt {
	var out []ast.Stmt
	for i := 0; i < len(in); i++ {
		s := in[i]
		var next ast.Stmt
		if i+1 < len(in) {
			next = in[i+1]
		}
		c.exprRewrites(s)
		if ls, isLabeled := s.(*ast.LabeledStmt); isLabeled {
			// the labelled statement itself may be the call statement: the label moves to the first statement that replaces it
			if repl, usedNext, ok := c.tryStmt(ls.Stmt, next); ok {
				if len(repl) == 0 {
					repl = []ast.Stmt{&ast.EmptyStmt{Semicolon: ls.Pos(), Implicit: false}}
				}
				repl[0] = &ast.LabeledStmt{Label: ls.Label, Colon: ls.Colon, Stmt: repl[0]}
				out = append(out, repl...)
				if usedNext {
					i++
				}
				continue
			}
		}
		if repl, usedNext, ok := c.tryStmt(s, next); ok {
			out = append(out, repl...)
			if usedNext {
				i++
			}
			continue
		}
		c.nested(s)
		out = append(out, s)
	}
	return out
}

func (c *inlCtx) nested(s ast.Stmt) {
	switch st := s.(type) {
	case *ast.BlockStmt:
		st.List = c.list(st.List)
	case *ast.IfStmt:
		st.Body.List = c.list(st.Body.List)
		switch e := st.Else.(type) {
		case *ast.BlockStmt:
			e.List = c.list(e.List)
		case *ast.IfStmt:
			l := c.list([]ast.Stmt{e})
			if len(l) == 1 {
				if ei, ok := l[0].(*ast.IfStmt); ok {
					st.Else = ei
					break
				}
			}
			st.Else = &ast.BlockStmt{List: l}
		}
	case *ast.ForStmt:
		st.Body.List = c.list(st.Body.List)
	case *ast.RangeStmt:
		st.Body.List = c.list(st.Body.List)
	case *ast.SwitchStmt:
		for _, cl := range st.Body.List {
			cc := cl.(*ast.CaseClause)
			for i := range cc.List {
				cc.List[i] = c.exprRewrite(cc.List[i])
			}
			cc.Body = c.list(cc.Body)
		}
	case *ast.TypeSwitchStmt:
		for _, cl := range st.Body.List {
			cc := cl.(*ast.CaseClause)
			cc.Body = c.list(cc.Body)
		}
	case *ast.SelectStmt:
		for _, cl := range st.Body.List {
			cc := cl.(*ast.CommClause)
			if cc.Comm != nil {
				c.exprRewrites(cc.Comm)
			}
			cc.Body = c.list(cc.Body)
		}
	case *ast.LabeledStmt:
		c.exprRewrites(st.Stmt)
		c.nested(st.Stmt)
	}
}

// exprRewrites rewrites the expressions of the statement's header (nested statement lists are handled by nested):
// calls of single-expression helpers are replaced by the expression, references to new functions that are not calls are
// eta-expanded, and the bodies of function literals are processed as statement lists of their own.
func (c *inlCtx) exprRewrites(s ast.Stmt) {
	astutil.Apply(s, func(cur *astutil.Cursor) bool {
		switch x := cur.Node().(type) {
		case *ast.BlockStmt:
			_ = x
			return false
		case *ast.FuncLit:
			if _, isClone := c.n.back[x]; !isClone {
				nres := 0
				if x.Type.Results != nil {
					nres = x.Type.Results.NumFields()
				}
				c.resultsN = append(c.resultsN, nres)
				x.Body.List = c.list(x.Body.List)
				c.resultsN = c.resultsN[:len(c.resultsN)-1]
			}
			return false
		case *ast.CallExpr:
			if r := c.applySelector(x); r != nil {
				cur.Replace(r)
				return false
			}
			switch cur.Parent().(type) {
			case *ast.GoStmt, *ast.DeferStmt, *ast.ExprStmt:
				return true
			}
			if r := c.substituteExprCall(x); r != nil {
				cur.Replace(r)
				return false
			}
			if r := c.betaReduce(x); r != nil {
				cur.Replace(r)
				return false
			}
		case *ast.IndexExpr, *ast.IndexListExpr:
			if r := c.etaExpandInstance(x.(ast.Expr), cur); r != nil {
				cur.Replace(r)
				return false
			}
		case *ast.SelectorExpr:
			if r := c.etaExpand(x, cur); r != nil {
				cur.Replace(r)
				return false
			}
		case *ast.Ident:
			if p, ok := cur.Parent().(*ast.SelectorExpr); ok && p.Sel == x {
				return true
			}
			if r := c.etaExpand(x, cur); r != nil {
				cur.Replace(r)
				return false
			}
		}
		return true
	}, nil)
}

func (c *inlCtx) exprRewrite(e ast.Expr) ast.Expr {
	holder := &ast.ExprStmt{X: e}
	c.exprRewrites(holder)
	return holder.X
}

// substituteExprCall: f(args) where f's body is `return expr` and the arguments may be duplicated.
func (c *inlCtx) substituteExprCall(call *ast.CallExpr) ast.Expr {
	_, f := c.candidate(call)
	if f == nil || f.Sig().Results().Len() != 1 || len(f.Body.List) != 1 {
		return nil
	}
	ret, ok := f.Body.List[0].(*ast.ReturnStmt)
	if !ok || len(ret.Results) != 1 {
		return nil
	}
	b := c.newBuilder(call, f)
	if b == nil {
		return nil
	}
	for _, p := range b.params {
		if !p.subst && !p.drop {
			c.skip(call, f, "argument "+exprStr(p.arg)+" cannot be substituted in an expression context")
			return nil
		}
	}
	body := b.cloneBody()
	if b.fail != "" {
		c.skip(call, f, b.fail)
		return nil
	}
	r := body.List[0].(*ast.ReturnStmt).Results[0]
	c.done(call, f, "expression")
	return &ast.ParenExpr{X: r}
}

// etaExpand: a reference to a new function or method that is not being called becomes a literal that calls it.
func (c *inlCtx) etaExpand(e ast.Expr, cur *astutil.Cursor) ast.Expr {
	if _, isClone := c.n.back[e]; isClone {
		return nil
	}
	if call, ok := cur.Parent().(*ast.CallExpr); ok && call.Fun == e {
		return nil
	}
	if p, ok := cur.Parent().(*ast.ParenExpr); ok {
		_ = p
		return nil
	}
	var id *ast.Ident
	var recv ast.Expr
	switch x := e.(type) {
	case *ast.Ident:
		id = x
	case *ast.SelectorExpr:
		id = x.Sel
		recv = x.X
	}
	fn, _ := c.info.Uses[id].(*types.Func)
	fn = originFunc(fn)
	if fn == nil {
		return nil
	}
	f := c.n.newFns[fn]
	if f == nil || f.Pkg != c.pkg || c.n.cyclic[fn] || fn == c.self || f.Sig().TypeParams().Len() > 0 {
		return nil
	}
	if recv != nil {
		sel := c.info.Selections[e.(*ast.SelectorExpr)]
		if sel == nil || sel.Kind() != types.MethodVal {
			return nil // method expression or qualified identifier
		}
		rid, ok := unparen(recv).(*ast.Ident)
		if !ok || !c.stable(rid) {
			c.skip(e, f, "method value on a receiver that is not a stable local")
			return nil
		}
	}
	// the literal's type: the declaration's, with every parameter named
	ft := cloneAST(f.Decl.Type, map[ast.Node]ast.Node{}).(*ast.FuncType)
	if !c.typeSyntaxUsable(f.Decl.Type, e.Pos()) {
		c.skip(e, f, "the helper's parameter types are not expressible here")
		return nil
	}
	var args []ast.Expr
	k := 0
	used := map[string]bool{}
	identNames(e, used)
	for _, fld := range ft.Params.List {
		if len(fld.Names) == 0 {
			fld.Names = []*ast.Ident{ast.NewIdent("_")}
		}
		for i, nm := range fld.Names {
			if nm.Name == "_" || used[nm.Name] {
				k++
				fld.Names[i] = ast.NewIdent("arg" + strconv.Itoa(k) + "_" + strconv.Itoa(c.n.fresh()))
			}
			args = append(args, ast.NewIdent(fld.Names[i].Name))
		}
	}
	call := &ast.CallExpr{Fun: e, Args: args}
	if f.Sig().Variadic() {
		call.Ellipsis = 1
	}
	var body ast.Stmt = &ast.ExprStmt{X: call}
	if f.Sig().Results().Len() > 0 {
		body = &ast.ReturnStmt{Results: []ast.Expr{call}}
	}
	c.done(e, f, "function value expanded to a literal")
	return &ast.FuncLit{Type: ft, Body: &ast.BlockStmt{List: []ast.Stmt{body}}}
}

func (n *normalizer) fresh() int {
	n.tmpN++
	return n.tmpN
}

// typeSyntaxUsable: every package-qualified or package-level name in the type syntax resolves to the same object at pos.
func (c *inlCtx) typeSyntaxUsable(t ast.Node, pos token.Pos) bool {
	ok := true
	ast.Inspect(t, func(n ast.Node) bool {
		if id, isId := n.(*ast.Ident); isId {
			if obj := c.info.Uses[id]; obj != nil && !c.resolvesSame(id.Name, obj, pos) {
				ok = false
			}
		}
		return ok
	})
	return ok
}

// resolvesSame: name, looked up at pos in the file being rewritten, denotes obj (for imports: the same package).
func (c *inlCtx) resolvesSame(name string, obj types.Object, pos token.Pos) bool {
	if v, isVar := obj.(*types.Var); isVar && v.IsField() {
		return true
	}
	pkgScope := c.pkg.Types.Scope()
	isFree := obj.Parent() == pkgScope || obj.Parent() == types.Universe
	if pn, ok := obj.(*types.PkgName); ok {
		inner := pkgScope.Innermost(pos)
		if inner == nil {
			return false
		}
		_, got := inner.LookupParent(name, pos)
		gpn, ok := got.(*types.PkgName)
		return ok && gpn.Imported() == pn.Imported()
	}
	if !isFree {
		return true // a local of the helper: travels with the clone
	}
	inner := pkgScope.Innermost(pos)
	if inner == nil {
		return false
	}
	_, got := inner.LookupParent(name, pos)
	return got == obj
}

// stable: the identifier denotes a constant, nil, or a local variable or parameter that is written at most once (its
// definition) in the enclosing declaration and whose address is not taken.
func (c *inlCtx) stable(id *ast.Ident) bool {
	obj := c.info.Uses[id]
	if obj == nil {
		obj = c.info.Defs[id]
	}
	switch o := obj.(type) {
	case *types.Const, *types.Nil:
		return true
	case *types.Var:
		if o.IsField() || o.Parent() == c.pkg.Types.Scope() {
			return false
		}
		writes := 0
		ast.Inspect(c.root, func(n ast.Node) bool {
			switch x := n.(type) {
			case *ast.AssignStmt:
				for _, l := range x.Lhs {
					if lid, ok := unparen(l).(*ast.Ident); ok && (c.info.Uses[lid] == obj || c.info.Defs[lid] == obj) {
						writes++
					}
				}
			case *ast.IncDecStmt:
				if lid, ok := unparen(x.X).(*ast.Ident); ok && c.info.Uses[lid] == obj {
					writes += 2
				}
			case *ast.RangeStmt:
				for _, l := range []ast.Expr{x.Key, x.Value} {
					if lid, ok := l.(*ast.Ident); ok && (c.info.Uses[lid] == obj || c.info.Defs[lid] == obj) {
						writes += 2
					}
				}
			case *ast.UnaryExpr:
				if x.Op == token.AND {
					if lid, ok := unparen(x.X).(*ast.Ident); ok && c.info.Uses[lid] == obj {
						writes += 2
					}
				}
			}
			return true
		})
		return writes <= 1
	}
	return false
}

// betaReduce: (func(p T) R { return e })(a)  ->  R(e[p := a])  for a literal that is invoked where it is written, whose
// body is one return of one expression, with side-effect-free arguments of exactly the parameter types.
func (c *inlCtx) betaReduce(call *ast.CallExpr) ast.Expr {
	lit, ok := unparen(call.Fun).(*ast.FuncLit)
	if !ok {
		return nil
	}
	if _, isClone := c.n.back[call]; isClone {
		return nil
	}
	if len(lit.Body.List) != 1 || lit.Type.Results == nil || lit.Type.Results.NumFields() != 1 || call.Ellipsis.IsValid() {
		return nil
	}
	ret, ok := lit.Body.List[0].(*ast.ReturnStmt)
	if !ok || len(ret.Results) != 1 {
		return nil
	}
	sig, _ := c.typeOf(lit).(*types.Signature)
	if sig == nil || sig.Variadic() || sig.Params().Len() != len(call.Args) {
		return nil
	}
	subst := map[types.Object]ast.Expr{}
	for i := 0; i < sig.Params().Len(); i++ {
		p := sig.Params().At(i)
		at := c.typeOf(call.Args[i])
		if !simpleExpr(c.info, call.Args[i]) || at == nil || !types.Identical(at, p.Type()) {
			return nil
		}
		subst[p] = call.Args[i]
	}
	// parameters must not be written in the body (it is a single return expression: only closures could, and & could)
	bad := false
	ast.Inspect(ret.Results[0], func(n ast.Node) bool {
		switch x := n.(type) {
		case *ast.FuncLit:
			bad = true
		case *ast.UnaryExpr:
			if x.Op == token.AND {
				bad = true
			}
		}
		return !bad
	})
	if bad {
		return nil
	}
	body := cloneAST(ret.Results[0], c.n.back).(ast.Expr)
	holder := &ast.ExprStmt{X: body}
	rewriteIdents(holder, func(e ast.Expr, isSel, isKey bool) ast.Expr {
		id, ok := e.(*ast.Ident)
		if !ok || isSel {
			return e
		}
		if a, ok := subst[c.useOf(id)]; ok && c.useOf(id) != nil {
			cl := cloneAST(a, c.n.back).(ast.Expr)
			switch cl.(type) {
			case *ast.Ident, *ast.SelectorExpr, *ast.BasicLit, *ast.ParenExpr, *ast.IndexExpr, *ast.CallExpr:
				return cl
			}
			return &ast.ParenExpr{X: cl}
		}
		return e
	})
	var out ast.Expr = &ast.ParenExpr{X: holder.X}
	rt := sig.Results().At(0).Type()
	if et := c.typeOf(ret.Results[0]); et == nil || !types.Identical(et, rt) {
		te := typeExpr(rt, c.pkg.Types, c.file, c.info)
		if te == nil {
			return nil
		}
		if _, isPtr := te.(*ast.StarExpr); isPtr {
			te = &ast.ParenExpr{X: te}
		}
		out = &ast.CallExpr{Fun: te, Args: []ast.Expr{holder.X}}
	}
	c.changed = true
	c.n.lg.Inlined = append(c.n.lg.Inlined, fmt.Sprintf("%s: function literal called where it is written, into %s (beta reduction)", c.n.w.Pos(call.Pos()), c.rootName))
	return out
}

// localClosure: call.Fun names a local variable that is bound exactly once, to a function literal, in the declaration
// being rewritten, and every other mention of which is the function position of a call. Such a closure is a local helper:
// its calls are spliced like those of a new function (free variables are checked to mean the same at the call), and
// the binding is removed once nothing mentions it (closureCleanup).
func (c *inlCtx) localClosure(call *ast.CallExpr) *Func {
	v, rhs, def := c.calledLocal(call)
	if v == nil {
		// a literal called where it is written: (func() R { … })()
		if lit, ok := unparen(call.Fun).(*ast.FuncLit); ok {
			switch c.n.w.parent[call].(type) {
			case *ast.GoStmt, *ast.DeferStmt:
				return nil // the literal is the goroutine / the deferred function itself
			}
			if _, isClone := c.n.back[lit]; !isClone {
				if f := c.n.w.funcOf[lit]; f != nil && f.Body != nil {
					return f
				}
			}
		}
		return nil
	}
	lit, ok := rhs.(*ast.FuncLit)
	if !ok {
		return nil
	}
	// not recursive, and not one of this round's clones
	if _, isClone := c.n.back[lit]; isClone {
		return nil
	}
	self := false
	ast.Inspect(lit.Body, func(n ast.Node) bool {
		if x, ok := n.(*ast.Ident); ok && c.info.Uses[x] == types.Object(v) {
			self = true
		}
		return !self
	})
	if self || call.Pos() < lit.End() {
		return nil
	}
	f := c.n.w.funcOf[lit]
	if f == nil || f.Body == nil {
		return nil
	}
	if c.closures == nil {
		c.closures = map[*types.Var]ast.Stmt{}
	}
	c.closures[v] = def
	return f
}

// calledLocal: call.Fun names a local variable that is bound exactly once (v := rhs) in the declaration being rewritten
// and every other mention of which is the function position of a call.
func (c *inlCtx) calledLocal(call *ast.CallExpr) (*types.Var, ast.Expr, ast.Stmt) {
	id, ok := unparen(call.Fun).(*ast.Ident)
	if !ok || c.root == nil {
		return nil, nil, nil
	}
	v, ok := c.info.Uses[id].(*types.Var)
	if !ok || v.IsField() || v.Parent() == c.pkg.Types.Scope() {
		return nil, nil, nil
	}
	var rhs ast.Expr
	var def ast.Stmt
	okAll := true
	var stack []ast.Node
	ast.Inspect(c.root, func(n ast.Node) bool {
		if n == nil {
			stack = stack[:len(stack)-1]
			return true
		}
		stack = append(stack, n)
		switch x := n.(type) {
		case *ast.AssignStmt:
			for i, l := range x.Lhs {
				lid, ok := l.(*ast.Ident)
				if !ok {
					continue
				}
				if c.info.Defs[lid] == types.Object(v) {
					if len(x.Lhs) == len(x.Rhs) && len(x.Lhs) == 1 && rhs == nil {
						rhs, def = x.Rhs[i], x
						continue
					}
					okAll = false
				} else if c.info.Uses[lid] == types.Object(v) {
					okAll = false // assigned again
				}
			}
		case *ast.ValueSpec:
			for _, nm := range x.Names {
				if c.info.Defs[nm] == types.Object(v) {
					okAll = false // var f = …: keep it simple, := only
				}
			}
		case *ast.Ident:
			if c.info.Uses[x] == types.Object(v) {
				if len(stack) < 2 {
					okAll = false
					break
				}
				parent := stack[len(stack)-2]
				if pc, ok := parent.(*ast.CallExpr); !ok || pc.Fun != ast.Expr(x) {
					if as, ok := parent.(*ast.AssignStmt); ok {
						isLhs := false
						for _, l := range as.Lhs {
							if l == ast.Expr(x) {
								isLhs = true
							}
						}
						if isLhs {
							break // counted above
						}
					}
					okAll = false
				}
			}
		}
		return true
	})
	if !okAll || rhs == nil || def == nil {
		return nil, nil, nil
	}
	return v, rhs, def
}

// applySelector: h(args) where h := G(x…) was bound once, G is a new function that does nothing but choose, by
// switch/if over its parameters, which function value to return (a selector), and the x are stable. The call is
// rewritten into a literal called where it is written whose body is G's with every `return F` turned into
// `return F(args)`: the choice is made where the function is applied, which is what the code before the refactoring did.
func (c *inlCtx) applySelector(call *ast.CallExpr) ast.Expr {
	v, rhs, def := c.calledLocal(call)
	if v == nil {
		return nil
	}
	gcall, ok := unparen(rhs).(*ast.CallExpr)
	if !ok {
		return nil
	}
	if _, isClone := c.n.back[gcall]; isClone {
		return nil
	}
	callee := originFunc(calleeOf(c.info, gcall))
	if callee == nil {
		return nil
	}
	g := c.n.newFns[callee]
	if g == nil || g.Pkg != c.pkg || g.Body == nil || g.Decl == nil || g.Decl.Recv != nil || c.n.cyclic[callee] || callee == c.self {
		return nil
	}
	gs := g.Sig()
	if gs.TypeParams().Len() > 0 || gs.Variadic() || gs.Results().Len() != 1 || len(gcall.Args) != gs.Params().Len() {
		return nil
	}
	hs, ok := gs.Results().At(0).Type().Underlying().(*types.Signature)
	if !ok {
		return nil
	}
	if !isSelectorBody(g) {
		c.skip(call, g, "called through a local bound to its result, and it is not a pure selector of function values")
		return nil
	}
	for _, a := range gcall.Args {
		if !simpleExpr(c.info, a) {
			return nil
		}
		stable := true
		ast.Inspect(a, func(n ast.Node) bool {
			if id, ok := n.(*ast.Ident); ok {
				if _, isVar := c.info.Uses[id].(*types.Var); isVar && !c.stable(id) {
					stable = false
				}
			}
			return stable
		})
		if !stable {
			c.skip(call, g, "the selector's argument can change between the selection and the call")
			return nil
		}
	}
	// the literal's result list
	var results *ast.FieldList
	if hs.Results().Len() > 0 {
		results = &ast.FieldList{}
		for i := 0; i < hs.Results().Len(); i++ {
			te := typeExpr(hs.Results().At(i).Type(), c.pkg.Types, c.file, c.info)
			if te == nil {
				return nil
			}
			results.List = append(results.List, &ast.Field{Type: te})
		}
	}
	body := cloneAST(g.Body, c.n.back).(*ast.BlockStmt)
	subst := map[types.Object]ast.Expr{}
	for i := 0; i < gs.Params().Len(); i++ {
		subst[gs.Params().At(i)] = gcall.Args[i]
	}
	failed := false
	rewriteIdents(body, func(e ast.Expr, isSel, isKey bool) ast.Expr {
		id, ok := e.(*ast.Ident)
		if !ok || isSel {
			return e
		}
		o := c.useOf(id)
		if o == nil {
			return e
		}
		if arg, ok := subst[o]; ok {
			cl := cloneAST(arg, c.n.back).(ast.Expr)
			if _, isId := cl.(*ast.Ident); isId {
				return cl
			}
			return &ast.ParenExpr{X: cl}
		}
		if isKey {
			if fv, ok := o.(*types.Var); ok && fv.IsField() {
				return e
			}
		}
		if !c.resolvesSame(id.Name, o, call.Pos()) {
			failed = true
		}
		return e
	})
	if failed {
		c.skip(call, g, "a name of the selector means something else at the call")
		return nil
	}
	// return F  ->  return F(args)   (or  F(args); return  when the selected functions return nothing)
	var fix func(list []ast.Stmt) []ast.Stmt
	fixStmt := func(st ast.Stmt) {}
	fix = func(list []ast.Stmt) []ast.Stmt {
		var out []ast.Stmt
		for _, st := range list {
			if r, ok := st.(*ast.ReturnStmt); ok && len(r.Results) == 1 {
				var args []ast.Expr
				for _, a := range call.Args {
					args = append(args, cloneAST(a, c.n.back).(ast.Expr))
				}
				fn := r.Results[0]
				switch fn.(type) {
				case *ast.Ident, *ast.SelectorExpr, *ast.ParenExpr:
				default:
					fn = &ast.ParenExpr{X: fn}
				}
				app := &ast.CallExpr{Fun: fn, Args: args, Lparen: call.Lparen, Rparen: call.Rparen}
				if call.Ellipsis.IsValid() {
					app.Ellipsis = call.Rparen
				}
				if results != nil {
					out = append(out, &ast.ReturnStmt{Return: r.Return, Results: []ast.Expr{app}})
				} else {
					out = append(out, &ast.ExprStmt{X: app}, &ast.ReturnStmt{Return: r.Return})
				}
				continue
			}
			fixStmt(st)
			out = append(out, st)
		}
		return out
	}
	fixStmt = func(st ast.Stmt) {
		switch x := st.(type) {
		case *ast.BlockStmt:
			x.List = fix(x.List)
		case *ast.IfStmt:
			x.Body.List = fix(x.Body.List)
			if x.Else != nil {
				fixStmt(x.Else)
			}
		case *ast.SwitchStmt:
			for _, cl := range x.Body.List {
				cc := cl.(*ast.CaseClause)
				cc.Body = fix(cc.Body)
			}
		}
	}
	body.List = fix(body.List)
	if c.closures == nil {
		c.closures = map[*types.Var]ast.Stmt{}
	}
	c.closures[v] = def
	c.changed = true
	c.n.lg.Inlined = append(c.n.lg.Inlined, fmt.Sprintf("%s: %s applied where its result is called, in %s (selector application)", c.n.w.Pos(call.Pos()), g.Name, c.rootName))
	return &ast.CallExpr{Fun: &ast.FuncLit{Type: &ast.FuncType{Func: call.Pos(), Params: &ast.FieldList{}, Results: results}, Body: body}, Lparen: call.Lparen, Rparen: call.Rparen}
}

// isSelectorBody: the body consists of returns of function values (declared functions, or literals that capture
// nothing), chosen by switch and if statements whose tags, cases and conditions call nothing.
func isSelectorBody(g *Func) bool {
	info := g.Pkg.TypesInfo
	var okList func(list []ast.Stmt) bool
	okStmt := func(st ast.Stmt) bool { return false }
	okList = func(list []ast.Stmt) bool {
		for _, st := range list {
			if !okStmt(st) {
				return false
			}
		}
		return true
	}
	okStmt = func(st ast.Stmt) bool {
		switch x := st.(type) {
		case *ast.ReturnStmt:
			if len(x.Results) != 1 {
				return false
			}
			switch r := unparen(x.Results[0]).(type) {
			case *ast.Ident:
				_, isFn := info.Uses[r].(*types.Func)
				return isFn
			case *ast.SelectorExpr:
				_, isFn := info.Uses[r.Sel].(*types.Func)
				_, isPkg := info.Uses[identOf(r.X)].(*types.PkgName)
				return isFn && isPkg && identOf(r.X) != nil
			case *ast.FuncLit:
				return closedFuncLit(info, r)
			}
			return false
		case *ast.BlockStmt:
			return okList(x.List)
		case *ast.IfStmt:
			if x.Init != nil || !callFree(x.Cond) || !okList(x.Body.List) {
				return false
			}
			return x.Else == nil || okStmt(x.Else)
		case *ast.SwitchStmt:
			if x.Init != nil || (x.Tag != nil && !callFree(x.Tag)) {
				return false
			}
			for _, cl := range x.Body.List {
				cc := cl.(*ast.CaseClause)
				for _, e := range cc.List {
					if !callFree(e) {
						return false
					}
				}
				if !okList(cc.Body) {
					return false
				}
			}
			return true
		}
		return false
	}
	return okList(g.Body.List)
}

// closureCleanup removes the bindings of closures whose every call was spliced.
func (c *inlCtx) closureCleanup() {
	for v, def := range c.closures {
		used := false
		ast.Inspect(c.root, func(n ast.Node) bool {
			x, ok := n.(*ast.Ident)
			if !ok {
				return true
			}
			if c.info.Uses[x] == types.Object(v) {
				used = true
			}
			if o, ok := c.n.back[x].(*ast.Ident); ok && c.info.Uses[o] == types.Object(v) {
				used = true
			}
			return !used
		})
		if used {
			continue
		}
		removeStmt(c.root, def)
		c.changed = true
	}
}

// removeStmt deletes the statement from the list that holds it.
func removeStmt(root ast.Node, st ast.Stmt) {
	drop := func(list []ast.Stmt) []ast.Stmt {
		for i, s := range list {
			if s == st {
				return append(list[:i:i], list[i+1:]...)
			}
		}
		return list
	}
	ast.Inspect(root, func(n ast.Node) bool {
		switch x := n.(type) {
		case *ast.BlockStmt:
			x.List = drop(x.List)
		case *ast.CaseClause:
			x.Body = drop(x.Body)
		case *ast.CommClause:
			x.Body = drop(x.Body)
		}
		return true
	})
}

var normLocalName = regexp.MustCompile(`_i[0-9]+$`)

// propagateCopies removes the copies the splices leave behind: `a := b` where b is a local this pass introduced (its
// name ends in _iN, which no name of the repository does), b is mentioned nowhere after the statement, and the name a is
// mentioned nowhere before it in the declaration. Every b becomes a and the statement goes: the code reads as if the
// helper had computed into the caller's variable, which is what it did before it was extracted. Purely by names and
// traversal order: the tree is re-type-checked afterwards, and a wrong merge could only fail to compile.
func propagateCopies(fd *ast.FuncDecl) {
	for round := 0; round < 50; round++ {
		// identifiers in traversal order, with the statement that is the candidate copy
		type occ struct {
			id *ast.Ident
		}
		var order []*ast.Ident
		var cands []*ast.AssignStmt
		ast.Inspect(fd, func(n ast.Node) bool {
			switch x := n.(type) {
			case *ast.Ident:
				order = append(order, x)
			case *ast.AssignStmt:
				if x.Tok == token.DEFINE && len(x.Lhs) == 1 && len(x.Rhs) == 1 {
					a, ok1 := x.Lhs[0].(*ast.Ident)
					b, ok2 := x.Rhs[0].(*ast.Ident)
					if ok1 && ok2 && a.Name != "_" && normLocalName.MatchString(b.Name) && a.Name != b.Name {
						cands = append(cands, x)
					}
				}
			case *ast.SelectorExpr:
				// the selected name is not a variable mention
				ast.Inspect(x.X, func(m ast.Node) bool {
					if id, ok := m.(*ast.Ident); ok {
						order = append(order, id)
					}
					return true
				})
				return false
			}
			return true
		})
		done := false
		for _, st := range cands {
			a, b := st.Lhs[0].(*ast.Ident), st.Rhs[0].(*ast.Ident)
			pos := -1
			for i, id := range order {
				if id == b {
					pos = i
				}
			}
			if pos < 0 {
				continue
			}
			ok := true
			declared := false
			for i, id := range order {
				if i < pos && id != a && id.Name == a.Name {
					ok = false // the caller's name is already in use before the copy
				}
				if i > pos && id.Name == b.Name {
					ok = false // the helper's variable lives on after the copy
				}
				if i < pos && id.Name == b.Name {
					declared = true
				}
			}
			if !ok || !declared || !declaredByDefine(fd, b.Name) || !scopeEncloses(fd, b.Name, st) {
				continue
			}
			for _, id := range order {
				if id.Name == b.Name {
					id.Name = a.Name
				}
			}
			removeStmt(fd, st)
			done = true
			break
		}
		if !done {
			return
		}
	}
}

// declaredByDefine: the name is introduced by exactly one := or var statement of the declaration (not a parameter, not
// a range or type-switch variable, not declared twice in sibling blocks).
func declaredByDefine(fd *ast.FuncDecl, name string) bool {
	n := 0
	bad := false
	ast.Inspect(fd, func(x ast.Node) bool {
		switch y := x.(type) {
		case *ast.AssignStmt:
			if y.Tok == token.DEFINE {
				for _, l := range y.Lhs {
					if id, ok := l.(*ast.Ident); ok && id.Name == name {
						n++
					}
				}
			}
		case *ast.ValueSpec:
			for _, id := range y.Names {
				if id.Name == name {
					n++
				}
			}
		case *ast.RangeStmt:
			for _, e := range []ast.Expr{y.Key, y.Value} {
				if id, ok := e.(*ast.Ident); ok && id.Name == name && y.Tok == token.DEFINE {
					bad = true
				}
			}
		case *ast.Field:
			for _, id := range y.Names {
				if id.Name == name {
					bad = true
				}
			}
		case *ast.TypeSwitchStmt:
			if as, ok := y.Assign.(*ast.AssignStmt); ok {
				for _, l := range as.Lhs {
					if id, ok := l.(*ast.Ident); ok && id.Name == name {
						bad = true
					}
				}
			}
		}
		return true
	})
	return n == 1 && !bad
}

// scopeEncloses: the statement list that declares the name contains (directly or in nested statements) the copy
// statement — so that the merged variable is in scope wherever the caller's variable was.
func scopeEncloses(fd *ast.FuncDecl, name string, st ast.Stmt) bool {
	found := false
	var visitList func(list []ast.Stmt)
	containsStmt := func(n ast.Node) bool {
		hit := false
		ast.Inspect(n, func(x ast.Node) bool {
			if x == ast.Node(st) {
				hit = true
			}
			return !hit
		})
		return hit
	}
	declares := func(s ast.Stmt) bool {
		switch y := s.(type) {
		case *ast.AssignStmt:
			if y.Tok == token.DEFINE {
				for _, l := range y.Lhs {
					if id, ok := l.(*ast.Ident); ok && id.Name == name {
						return true
					}
				}
			}
		case *ast.DeclStmt:
			if gd, ok := y.Decl.(*ast.GenDecl); ok {
				for _, sp := range gd.Specs {
					if vs, ok := sp.(*ast.ValueSpec); ok {
						for _, id := range vs.Names {
							if id.Name == name {
								return true
							}
						}
					}
				}
			}
		}
		return false
	}
	visitList = func(list []ast.Stmt) {
		declaredAt := -1
		for i, s := range list {
			if declares(s) {
				declaredAt = i
			}
		}
		if declaredAt >= 0 {
			for _, s := range list[declaredAt+1:] {
				if containsStmt(s) {
					found = true
				}
			}
		}
	}
	ast.Inspect(fd, func(x ast.Node) bool {
		switch y := x.(type) {
		case *ast.BlockStmt:
			visitList(y.List)
		case *ast.CaseClause:
			visitList(y.Body)
		case *ast.CommClause:
			visitList(y.Body)
		}
		return !found
	})
	return found
}

// scalarReplace: a local bound once to a keyed composite literal (or its address) whose every other mention is the read
// of a field the literal sets to a stable simple expression (a stable local, a constant) is only a bundle of those
// values: each v.f becomes the value and the binding goes. This undoes "closures turned into methods of a small struct"
// once the methods have been spliced back.
func (c *inlCtx) scalarReplace() {
	type cand struct {
		v    *types.Var
		def  *ast.AssignStmt
		lit  *ast.CompositeLit
		vals map[string]ast.Expr
	}
	var cands []*cand
	ast.Inspect(c.root, func(n ast.Node) bool {
		as, ok := n.(*ast.AssignStmt)
		if !ok || as.Tok != token.DEFINE || len(as.Lhs) != 1 || len(as.Rhs) != 1 {
			return true
		}
		id, ok := as.Lhs[0].(*ast.Ident)
		if !ok {
			return true
		}
		v, ok := c.info.Defs[id].(*types.Var)
		if !ok {
			return true
		}
		r := unparen(as.Rhs[0])
		if u, ok := r.(*ast.UnaryExpr); ok && u.Op == token.AND {
			r = unparen(u.X)
		}
		lit, ok := r.(*ast.CompositeLit)
		if !ok {
			return true
		}
		if tv, ok := c.info.Types[lit]; !ok {
			return true
		} else if _, isStruct := tv.Type.Underlying().(*types.Struct); !isStruct {
			return true
		}
		vals := map[string]ast.Expr{}
		for _, el := range lit.Elts {
			kv, ok := el.(*ast.KeyValueExpr)
			if !ok {
				return true
			}
			k, ok := kv.Key.(*ast.Ident)
			if !ok {
				return true
			}
			val := unparen(kv.Value)
			switch y := val.(type) {
			case *ast.Ident:
				if _, isVar := c.info.Uses[y].(*types.Var); isVar && !c.stable(y) {
					return true
				}
			case *ast.BasicLit:
			default:
				if tv, ok := c.info.Types[val]; !ok || tv.Value == nil {
					return true
				}
			}
			vals[k.Name] = val
		}
		cands = append(cands, &cand{v: v, def: as, lit: lit, vals: vals})
		return true
	})
	for _, cd := range cands {
		ok := true
		var reads []*ast.SelectorExpr
		var stack []ast.Node
		ast.Inspect(c.root, func(n ast.Node) bool {
			if n == nil {
				stack = stack[:len(stack)-1]
				return true
			}
			stack = append(stack, n)
			id, isId := n.(*ast.Ident)
			if !isId || c.info.Uses[id] != types.Object(cd.v) {
				return true
			}
			if len(stack) < 2 {
				ok = false
				return true
			}
			se, isSel := stack[len(stack)-2].(*ast.SelectorExpr)
			if !isSel || se.X != ast.Expr(id) {
				ok = false
				return true
			}
			sel := c.info.Selections[se]
			if sel == nil || sel.Kind() != types.FieldVal || len(sel.Index()) != 1 {
				ok = false
				return true
			}
			if _, has := cd.vals[se.Sel.Name]; !has {
				ok = false
				return true
			}
			// a read: not assigned, not incremented, address not taken
			if len(stack) >= 3 {
				switch p := stack[len(stack)-3].(type) {
				case *ast.AssignStmt:
					for _, l := range p.Lhs {
						if l == ast.Expr(se) {
							ok = false
						}
					}
				case *ast.IncDecStmt:
					ok = false
				case *ast.UnaryExpr:
					if p.Op == token.AND {
						ok = false
					}
				}
			}
			reads = append(reads, se)
			return true
		})
		if !ok || len(reads) == 0 {
			continue
		}
		// the values must mean the same where they are read (not shadowed)
		for _, se := range reads {
			val := cd.vals[se.Sel.Name]
			if id, isId := val.(*ast.Ident); isId {
				if o := c.info.Uses[id]; o != nil && !c.resolvesSameLocal(id.Name, o, se.Pos()) {
					ok = false
				}
			}
		}
		if !ok {
			continue
		}
		repl := map[*ast.SelectorExpr]bool{}
		for _, se := range reads {
			repl[se] = true
		}
		astutil.Apply(c.root, func(cur *astutil.Cursor) bool {
			if se, isSel := cur.Node().(*ast.SelectorExpr); isSel && repl[se] {
				cur.Replace(cloneAST(cd.vals[se.Sel.Name], c.n.back).(ast.Expr))
				return false
			}
			return true
		}, nil)
		removeStmt(c.root, cd.def)
		c.changed = true
		c.n.lg.Inlined = append(c.n.lg.Inlined, fmt.Sprintf("%s: local %s, a bundle of stable values, replaced by them in %s (scalar replacement)", c.n.w.Pos(cd.def.Pos()), cd.v.Name(), c.rootName))
	}
}

// resolvesSameLocal: the name denotes the object at the position (for locals and package-level names alike).
func (c *inlCtx) resolvesSameLocal(name string, obj types.Object, pos token.Pos) bool {
	inner := c.pkg.Types.Scope().Innermost(pos)
	if inner == nil {
		return false
	}
	_, got := inner.LookupParent(name, pos)
	return got == obj
}

// typeArgsOf: the call instantiates the generic function f; returns, per type parameter of f, the syntax of the type
// argument as it can be written in this file (nil if the instance is unknown or a type argument cannot be written).
func (c *inlCtx) typeArgsOf(call *ast.CallExpr, f *Func) map[types.Object]ast.Expr {
	sig := f.Sig()
	if sig == nil || sig.TypeParams().Len() == 0 {
		return nil
	}
	var fid *ast.Ident
	switch fx := unparen(call.Fun).(type) {
	case *ast.Ident:
		fid = fx
	case *ast.SelectorExpr:
		fid = fx.Sel
	case *ast.IndexExpr:
		fid = identOf(fx.X)
	case *ast.IndexListExpr:
		fid = identOf(fx.X)
	}
	if fid == nil {
		return nil
	}
	o, _ := c.orig(fid).(*ast.Ident)
	if o == nil {
		return nil
	}
	inst, ok := c.info.Instances[o]
	if !ok || inst.TypeArgs == nil || inst.TypeArgs.Len() != sig.TypeParams().Len() {
		return nil
	}
	out := map[types.Object]ast.Expr{}
	for i := 0; i < sig.TypeParams().Len(); i++ {
		te := typeExpr(inst.TypeArgs.At(i), c.pkg.Types, c.file, c.info)
		if te == nil {
			return nil
		}
		out[sig.TypeParams().At(i).Obj()] = te
	}
	return out
}

// etaExpandInstance: a reference f[T…] to an instantiated generic new function that is not called where it stands
// becomes func(params) results { return f[T…](params) } with the instantiated parameter and result types.
func (c *inlCtx) etaExpandInstance(e ast.Expr, cur *astutil.Cursor) ast.Expr {
	if _, isClone := c.n.back[e]; isClone {
		return nil
	}
	if call, ok := cur.Parent().(*ast.CallExpr); ok && call.Fun == e {
		return nil
	}
	var x ast.Expr
	switch ix := e.(type) {
	case *ast.IndexExpr:
		x = ix.X
	case *ast.IndexListExpr:
		x = ix.X
	default:
		return nil
	}
	id := identOf(x)
	if id == nil {
		return nil
	}
	fn, _ := c.info.Uses[id].(*types.Func)
	fn = originFunc(fn)
	if fn == nil {
		return nil
	}
	f := c.n.newFns[fn]
	if f == nil || f.Pkg != c.pkg || c.n.cyclic[fn] || fn == c.self || f.Decl == nil || f.Decl.Recv != nil || f.Sig().TypeParams().Len() == 0 {
		return nil
	}
	inst, ok := c.info.Instances[id]
	if !ok {
		return nil
	}
	isig, ok := inst.Type.(*types.Signature)
	if !ok || isig.Variadic() {
		return nil
	}
	ft := &ast.FuncType{Params: &ast.FieldList{}}
	var args []ast.Expr
	for i := 0; i < isig.Params().Len(); i++ {
		te := typeExpr(isig.Params().At(i).Type(), c.pkg.Types, c.file, c.info)
		if te == nil {
			c.skip(e, f, "an instantiated parameter type cannot be written here")
			return nil
		}
		nm := "arg" + strconv.Itoa(i+1) + "_" + strconv.Itoa(c.n.fresh())
		ft.Params.List = append(ft.Params.List, &ast.Field{Names: []*ast.Ident{ast.NewIdent(nm)}, Type: te})
		args = append(args, ast.NewIdent(nm))
	}
	if isig.Results().Len() > 0 {
		ft.Results = &ast.FieldList{}
		for i := 0; i < isig.Results().Len(); i++ {
			te := typeExpr(isig.Results().At(i).Type(), c.pkg.Types, c.file, c.info)
			if te == nil {
				c.skip(e, f, "an instantiated result type cannot be written here")
				return nil
			}
			ft.Results.List = append(ft.Results.List, &ast.Field{Type: te})
		}
	}
	call := &ast.CallExpr{Fun: e, Args: args}
	var body ast.Stmt = &ast.ExprStmt{X: call}
	if isig.Results().Len() > 0 {
		body = &ast.ReturnStmt{Results: []ast.Expr{call}}
	}
	c.done(e, f, "instantiated function value expanded to a literal")
	return &ast.FuncLit{Type: ft, Body: &ast.BlockStmt{List: []ast.Stmt{body}}}
}
