package main

// c20ring.go — C20.R4: when the ring buffer is carried over into another buffer (growth, shrinking, compaction), the copies
// tile the ring in order: first the segment from the head to the end of the old buffer, then the wrapped segment from index 0,
// placed right behind it; afterwards the head is 0. The offsets are compared as affine forms over the symbols of the function
// (head, tail, N = len = cap of the old buffer — equal by C20.R3). Decides the carry-over only: a necessary condition of FIFO
// order across internal growth with a wrapped buffer. Not decided: the index arithmetic of the ordinary enqueue/dequeue steps.

import (
	"go/ast"
	"go/constant"
	"go/token"
	"go/types"
	"sort"
	"strings"
)

type affForm struct {
	coef map[string]int64
	c    int64
	ok   bool
}

func (a affForm) equal(b affForm) bool {
	if !a.ok || !b.ok || a.c != b.c {
		return false
	}
	for k, v := range a.coef {
		if v != 0 && b.coef[k] != v {
			return false
		}
	}
	for k, v := range b.coef {
		if v != 0 && a.coef[k] != v {
			return false
		}
	}
	return true
}

func (a affForm) String() string {
	if !a.ok {
		return "?"
	}
	var ks []string
	for k, v := range a.coef {
		if v != 0 {
			ks = append(ks, itoa(int(v))+"·"+k)
		}
	}
	sort.Strings(ks)
	return strings.Join(append(ks, itoa(int(a.c))), " + ")
}

func affineOf(info *types.Info, x *expander, e ast.Expr, canon func(string) string) affForm {
	e = unparen(e)
	if tv, ok := info.Types[e]; ok && tv.Value != nil && tv.Value.Kind() == constant.Int {
		v, _ := constant.Int64Val(tv.Value)
		return affForm{coef: map[string]int64{}, c: v, ok: true}
	}
	switch n := e.(type) {
	case *ast.BinaryExpr:
		if n.Op == token.ADD || n.Op == token.SUB {
			l, r := affineOf(info, x, n.X, canon), affineOf(info, x, n.Y, canon)
			if !l.ok || !r.ok {
				return affForm{}
			}
			out := affForm{coef: map[string]int64{}, ok: true}
			sign := int64(1)
			if n.Op == token.SUB {
				sign = -1
			}
			for k, v := range l.coef {
				out.coef[k] += v
			}
			for k, v := range r.coef {
				out.coef[k] += sign * v
			}
			out.c = l.c + sign*r.c
			return out
		}
		if n.Op == token.MUL {
			l, r := affineOf(info, x, n.X, canon), affineOf(info, x, n.Y, canon)
			if l.ok && r.ok {
				isC := func(a affForm) bool {
					for _, v := range a.coef {
						if v != 0 {
							return false
						}
					}
					return true
				}
				if isC(l) {
					l, r = r, l
				}
				if isC(r) {
					out := affForm{coef: map[string]int64{}, ok: true, c: l.c * r.c}
					for k, v := range l.coef {
						out.coef[k] = v * r.c
					}
					return out
				}
			}
			return affForm{coef: map[string]int64{canon(x.str(e)): 1}, ok: true}
		}
	case *ast.UnaryExpr:
		if n.Op == token.SUB {
			l := affineOf(info, x, n.X, canon)
			if l.ok {
				out := affForm{coef: map[string]int64{}, ok: true, c: -l.c}
				for k, v := range l.coef {
					out.coef[k] = -v
				}
				return out
			}
		}
	}
	// a local assigned once: through its definition
	if id, ok := e.(*ast.Ident); ok {
		if v, isVar := info.Uses[id].(*types.Var); isVar && !v.IsField() {
			if rhs, idx, _, okd := x.def(v); okd && rhs != nil && idx < 0 {
				return affineOf(info, x, rhs, canon)
			}
		}
	}
	return affForm{coef: map[string]int64{canon(x.str(e)): 1}, ok: true}
}

func c20R4(c *Ctx) {
	w := c.W
	c.rule("C20.R4", "carry-over of the ring buffer tiles it in order: a function that copies out of the buffer copies base[head:N] to the start of the new buffer and base[0:head] (or [0:tail]) right behind it (destination offset = N − head, compared as affine forms), and sets the head to 0 afterwards; a single copy of base[head:] alone loses the wrapped elements", 1)
	cp := w.Pkg("internal/container")
	if cp == nil {
		c.undecided("C20.R4", "package internal/container not found")
		return
	}
	info := cp.TypesInfo
	// the buffer: the slice field indexed modulo its cap (as in R3); the head: the int field that indexes it in a read
	var buf *types.Var
	for _, f := range w.FuncsIn(cp) {
		if f.Body == nil {
			continue
		}
		ast.Inspect(f.Body, func(n ast.Node) bool {
			if b, ok := n.(*ast.BinaryExpr); ok && b.Op == token.REM {
				if call, ok := unparen(b.Y).(*ast.CallExpr); ok && isBuiltin(info, call, "cap") && len(call.Args) == 1 {
					if fld := lastField(info, call.Args[0]); fld != nil && buf == nil {
						buf = fld.Origin()
					}
				}
			}
			return true
		})
	}
	if buf == nil {
		c.ob("C20.R4", "internal/container/ring-arithmetic", "-", true, "no index arithmetic modulo cap(buffer) in the package: the rule has nothing to require")
		return
	}
	isBuf := func(e ast.Expr) bool {
		f := lastField(info, e)
		return f != nil && f.Origin() == buf
	}
	var head *types.Var
	for _, f := range w.FuncsIn(cp) {
		if f.Body == nil {
			continue
		}
		ast.Inspect(f.Body, func(n ast.Node) bool {
			ix, ok := n.(*ast.IndexExpr)
			if !ok || !isBuf(ix.X) {
				return true
			}
			// not an assignment target
			if as, ok := w.parent[ix].(*ast.AssignStmt); ok {
				for _, l := range as.Lhs {
					if l == ast.Expr(ix) {
						return true
					}
				}
			}
			if hf := lastField(info, ix.Index); hf != nil && head == nil {
				head = hf.Origin()
			}
			return true
		})
	}
	if head == nil {
		c.undecided("C20.R4", "the head index (the field that indexes the buffer where an element is read) was not found")
		return
	}
	nFuncs := 0
	for _, f := range w.FuncsIn(cp) {
		if f.Body == nil {
			continue
		}
		type ringCopy struct {
			call   *ast.CallExpr
			lo, hi ast.Expr // source bounds (nil = default)
			dstLo  ast.Expr // destination low bound (nil = 0)
			dstStr string
		}
		var copies []ringCopy
		x := w.expander(f)
		ast.Inspect(f.Body, func(n ast.Node) bool {
			call, ok := n.(*ast.CallExpr)
			if !ok || !isBuiltin(info, call, "copy") || len(call.Args) != 2 {
				return true
			}
			src := unparen(call.Args[1])
			rc := ringCopy{call: call}
			if se, ok := src.(*ast.SliceExpr); ok {
				if !isBuf(se.X) {
					return true
				}
				rc.lo, rc.hi = se.Low, se.High
			} else if !isBuf(src) {
				return true
			}
			dst := unparen(call.Args[0])
			if de, ok := dst.(*ast.SliceExpr); ok {
				rc.dstLo = de.Low
				rc.dstStr = x.str(de.X)
			} else {
				rc.dstStr = x.str(dst)
			}
			copies = append(copies, rc)
			return true
		})
		if len(copies) == 0 {
			// the append form: dst = append(dst, base[head:]...); dst = append(dst, base[:head]...) on an empty dst
			type ringAppend struct {
				call   *ast.CallExpr
				lo, hi ast.Expr
				dst    string
			}
			var apps []ringAppend
			ast.Inspect(f.Body, func(n ast.Node) bool {
				call, ok := n.(*ast.CallExpr)
				if !ok || !isBuiltin(info, call, "append") || len(call.Args) != 2 || !call.Ellipsis.IsValid() {
					return true
				}
				src := unparen(call.Args[1])
				ra := ringAppend{call: call, dst: exprStr(call.Args[0])}
				if se, ok := src.(*ast.SliceExpr); ok {
					if !isBuf(se.X) {
						return true
					}
					ra.lo, ra.hi = se.Low, se.High
				} else if !isBuf(src) {
					return true
				}
				apps = append(apps, ra)
				return true
			})
			if len(apps) == 0 {
				continue
			}
			nFuncs++
			c.fn(f)
			bufStr, headStr := "", ""
			ast.Inspect(f.Body, func(n ast.Node) bool {
				if se, ok := n.(*ast.SelectorExpr); ok {
					if bufStr == "" && isBuf(se) {
						bufStr = x.str(se)
					}
					if fld := lastField(info, se); fld != nil && fld.Origin() == head && headStr == "" {
						headStr = x.str(se)
					}
				}
				return true
			})
			canon := func(s string) string {
				if bufStr != "" && (s == "len("+bufStr+")" || s == "cap("+bufStr+")") {
					return "N"
				}
				return s
			}
			zero := affForm{coef: map[string]int64{}, ok: true}
			N := affForm{coef: map[string]int64{"N": 1}, ok: true}
			H := affForm{coef: map[string]int64{headStr: 1}, ok: true}
			aff := func(e ast.Expr, dflt affForm) affForm {
				if e == nil {
					return dflt
				}
				return affineOf(info, x, e, canon)
			}
			key := f.Name + "/carry-over"
			pos := w.Pos(apps[0].call.Pos())
			if len(apps) != 2 || apps[0].dst != apps[1].dst {
				c.undecided("C20.R4", f.Name+": "+itoa(len(apps))+" appends out of the ring buffer: not a shape this rule knows")
				continue
			}
			// the destination starts empty: a local made with length 0, appended to by nothing before the first ring append
			emptyDst := false
			if id, ok := unparen(apps[0].call.Args[0]).(*ast.Ident); ok {
				if v, isVar := info.Uses[id].(*types.Var); isVar {
					ast.Inspect(f.Body, func(n ast.Node) bool {
						as, ok := n.(*ast.AssignStmt)
						if !ok || as.Pos() > apps[0].call.Pos() {
							return true
						}
						for i, l := range as.Lhs {
							lid := identOf(l)
							if lid == nil || i >= len(as.Rhs) {
								continue
							}
							if info.Defs[lid] == types.Object(v) {
								if mk, ok := unparen(as.Rhs[i]).(*ast.CallExpr); ok && isBuiltin(info, mk, "make") && len(mk.Args) == 3 {
									if tv, ok := info.Types[mk.Args[1]]; ok && tv.Value != nil && tv.Value.String() == "0" {
										emptyDst = true
									}
								}
							} else if info.Uses[lid] == types.Object(v) && as.End() < apps[0].call.Pos() {
								emptyDst = false
							}
						}
						return true
					})
				}
			}
			var why []string
			if !emptyDst {
				why = append(why, "the destination of the appends is not a local made with length 0")
			}
			alo, ahi := aff(apps[0].lo, zero), aff(apps[0].hi, N)
			blo, bhi := aff(apps[1].lo, zero), aff(apps[1].hi, N)
			if !alo.equal(H) || !ahi.equal(N) {
				why = append(why, "the first append does not take the segment from the head to the end of the buffer")
			}
			if !blo.equal(zero) || !bhi.equal(H) {
				okTail := false
				if blo.equal(zero) && apps[1].hi != nil {
					if tf := lastField(info, apps[1].hi); tf != nil && tf.Origin() != head && isIntType(tf.Type()) {
						okTail = true
					}
				}
				if !okTail {
					why = append(why, "the second append does not take the wrapped segment from index 0 to the head (or the tail)")
				}
			}
			reset := false
			ast.Inspect(f.Body, func(n ast.Node) bool {
				if as, ok := n.(*ast.AssignStmt); ok && as.Pos() > apps[1].call.Pos() && len(as.Lhs) == len(as.Rhs) {
					for i, l := range as.Lhs {
						if fld := lastField(info, l); fld != nil && fld.Origin() == head {
							if tv, ok := info.Types[as.Rhs[i]]; ok && tv.Value != nil && tv.Value.String() == "0" {
								reset = true
							}
						}
					}
				}
				return true
			})
			if !reset {
				why = append(why, "the head is not set to 0 after the appends, although the oldest element now sits at index 0")
			}
			c.ob("C20.R4", key, pos, len(why) == 0, map[bool]string{true: "head segment appended first, wrapped segment right behind it (append), head reset to 0", false: strings.Join(why, "; ")}[len(why) == 0])
			continue
		}
		nFuncs++
		c.fn(f)
		bufStr := ""
		canon := func(s string) string {
			if bufStr != "" && (s == "len("+bufStr+")" || s == "cap("+bufStr+")") {
				return "N"
			}
			return s
		}
		// the buffer expression as the expander prints it
		ast.Inspect(f.Body, func(n ast.Node) bool {
			if se, ok := n.(*ast.SelectorExpr); ok && bufStr == "" && isBuf(se) {
				bufStr = x.str(se)
			}
			return true
		})
		aff := func(e ast.Expr, dflt affForm) affForm {
			if e == nil {
				return dflt
			}
			return affineOf(info, x, e, canon)
		}
		zero := affForm{coef: map[string]int64{}, ok: true}
		N := affForm{coef: map[string]int64{"N": 1}, ok: true}
		headStr := ""
		tailStrs := map[string]bool{}
		ast.Inspect(f.Body, func(n ast.Node) bool {
			if se, ok := n.(*ast.SelectorExpr); ok {
				if fld := lastField(info, se); fld != nil && fld.Origin() == head && headStr == "" {
					headStr = x.str(se)
				}
			}
			return true
		})
		H := affForm{coef: map[string]int64{headStr: 1}, ok: true}
		key := f.Name + "/carry-over"
		pos := w.Pos(copies[0].call.Pos())
		switch len(copies) {
		case 1:
			lo := aff(copies[0].lo, zero)
			hi := aff(copies[0].hi, N)
			if lo.equal(H) && hi.equal(N) {
				c.ob("C20.R4", key, pos, false, "the only copy out of the ring buffer takes "+bufStr+"["+headStr+":]: the elements that wrapped around to the front of the buffer (index 0 up to the tail) are not carried over — after a wrap-around the queue silently loses them")
			} else if lo.equal(zero) && hi.equal(N) {
				c.undecided("C20.R4", f.Name+": the whole buffer is copied in place order; whether the head keeps its meaning is not modelled")
			} else {
				c.undecided("C20.R4", f.Name+": a single copy out of the ring buffer with bounds ["+lo.String()+" : "+hi.String()+"] is not a shape this rule knows")
			}
		case 2:
			a, b := copies[0], copies[1]
			alo, ahi := aff(a.lo, zero), aff(a.hi, N)
			blo, bhi := aff(b.lo, zero), aff(b.hi, N)
			ad, bd := aff(a.dstLo, zero), aff(b.dstLo, zero)
			// which one is the head segment?
			if !(alo.equal(H)) && blo.equal(H) {
				a, b = b, a
				alo, ahi, blo, bhi, ad, bd = blo, bhi, alo, ahi, bd, ad
			}
			// the offset of the second copy given as the count returned by the first one: moved := copy(dst, head segment); copy(dst[moved:], …)
			if id, ok := unparen(b.dstLo).(*ast.Ident); ok && b.dstLo != nil && a.call.Pos() < b.call.Pos() {
				if v, isVar := info.Uses[id].(*types.Var); isVar {
					defIsFirstCopy, reassigned := false, false
					ast.Inspect(f.Body, func(n ast.Node) bool {
						as, ok := n.(*ast.AssignStmt)
						if !ok {
							return true
						}
						for i, l := range as.Lhs {
							lid := identOf(l)
							if lid == nil || unparen(l) != ast.Expr(lid) {
								continue
							}
							if info.Defs[lid] == types.Object(v) && i < len(as.Rhs) && unparen(as.Rhs[i]) == ast.Expr(a.call) {
								defIsFirstCopy = true
							} else if info.Uses[lid] == types.Object(v) && as.Pos() > a.call.End() && as.End() < b.call.Pos() {
								reassigned = true
							}
						}
						return true
					})
					if defIsFirstCopy && !reassigned && alo.ok && ahi.ok {
						// copy returns the number of elements copied: the length of the head segment (the new buffer is larger)
						cnt := affForm{coef: map[string]int64{}, ok: true, c: ahi.c - alo.c}
						for k, v := range ahi.coef {
							cnt.coef[k] += v
						}
						for k, v := range alo.coef {
							cnt.coef[k] -= v
						}
						bd = cnt
					}
				}
			}
			known := func(fs ...affForm) string {
				for _, fm := range fs {
					for k, v := range fm.coef {
						if v != 0 && k != "N" && k != headStr {
							return k
						}
					}
				}
				return ""
			}
			if sym := known(ad, bd, alo, ahi, blo); sym != "" {
				c.undecided("C20.R4", f.Name+": a bound or offset of the carry-over depends on "+sym+", which this rule cannot relate to the head and the size of the buffer")
				continue
			}
			var why []string
			if a.dstStr != b.dstStr {
				why = append(why, "the two copies go to different buffers")
			}
			if !alo.equal(H) || !ahi.equal(N) {
				why = append(why, "no copy takes the segment from the head to the end of the buffer (found ["+alo.String()+" : "+ahi.String()+"])")
			}
			if !blo.equal(zero) {
				why = append(why, "the wrapped segment does not start at index 0")
			}
			// its end: the head (full buffer: tail == head) or the tail
			if !bhi.equal(H) {
				// accept any other int field of the same struct (the tail)
				okTail := false
				if b.hi != nil {
					if tf := lastField(info, b.hi); tf != nil && tf.Origin() != head && isIntType(tf.Type()) {
						okTail = true
						tailStrs[x.str(b.hi)] = true
					}
				}
				if !okTail {
					why = append(why, "the wrapped segment does not end at the head or the tail (found "+bhi.String()+")")
				}
			}
			if !ad.equal(zero) {
				why = append(why, "the head segment is not placed at the start of the new buffer (offset "+ad.String()+")")
			}
			want := affForm{coef: map[string]int64{"N": 1, headStr: -1}, ok: true}
			if !bd.equal(want) {
				why = append(why, "the wrapped segment is placed at offset "+bd.String()+" of the new buffer, not right behind the head segment (N − head = "+want.String()+"): elements are overwritten or a gap of zero values is left")
			}
			// the head is reset to 0 after the copies
			reset := false
			ast.Inspect(f.Body, func(n ast.Node) bool {
				if as, ok := n.(*ast.AssignStmt); ok && as.Pos() > copies[1].call.Pos() && len(as.Lhs) == len(as.Rhs) {
					for i, l := range as.Lhs {
						if fld := lastField(info, l); fld != nil && fld.Origin() == head {
							if tv, ok := info.Types[as.Rhs[i]]; ok && tv.Value != nil && tv.Value.String() == "0" {
								reset = true
							}
						}
					}
				}
				return true
			})
			if !reset {
				why = append(why, "the head is not set to 0 after the copies, although the oldest element now sits at index 0")
			}
			c.ob("C20.R4", key, pos, len(why) == 0, map[bool]string{true: "head segment [head:N] to offset 0, wrapped segment [0:head] to offset N − head, head reset to 0", false: strings.Join(why, "; ")}[len(why) == 0])
		default:
			c.undecided("C20.R4", f.Name+": "+itoa(len(copies))+" copies out of the ring buffer: not a shape this rule knows")
		}
	}
	_ = nFuncs
}
