package main

// c19num.go — C19, the numeric clauses, decided by abstract interpretation of the bodies of the numeric built-ins.
//
// Domain. A finite number x is written x = k + t with k = ⌊x⌋ an integer and t ∈ [0,1). The reals are partitioned into
// nine classes: the sign of x (x>0, x=0, x<0) times the class of t ({0}, (0,½), {½}, (½,1)). Inside one class every
// function the built-ins are made of — x, math.Floor/Ceil/Trunc/Round, math.Mod(x,1), math.Modf, float↔integer
// conversions, math.Abs/Copysign/Signbit, comparisons, + − and multiplication by constants — is an *affine* function
// a·k + b·t + c of (k, t) with rational coefficients (e.g. Round is k, k+1 or, at t=½, k+1 for x>0 and k for x<0).
// The body of a built-in is interpreted once per class over this domain (helpers are interpreted at their call
// sites, conditions are decided over the class or both arms must agree); the result is an affine form g and each
// clause of the property becomes a statement about g − x over the class, decided exactly in rational arithmetic
// (unbounded k: the coefficient of k must vanish; then the range of b·t + c over the t-class is an interval).
//
// Floating point. The domain tracks whether each step is *exact* in binary64 for |x| < 2^52: rounding functions
// are exact; sums of integer-valued forms are exact (|values| < 2^53); x − I for an integer-valued I is exact when
// |x − I| ≤ |x| over the class (a multiple of ulp(x) no larger than x is representable) — this is why x − trunc(x) is
// exact and x − floor(x) is not for tiny negative x. A clause is reported as holding only when it holds for the
// affine form AND every step was exact, i.e. the affine form IS the computed double. A rounding function applied to
// x + c with c ∈ {±1, ±½} is reported as a violation: binary64 addition rounds to nearest, and for each of these
// constants there is a double x (pred(1), 2^-60, pred(½), −½+2^-54) whose sum is rounded onto an integer from the
// wrong side, so the rounding function is off by one there while every clause pins the result within less than one.
// A clause that fails for the affine form is reported as a violation only together with a witness (k, t) with small k
// and t ∈ {0, ¼, ½, ¾, …}: on such dyadic points every step of the body is exact in binary64, so the witness is an
// input on which the real code misbehaves. Everything else (a shape outside the domain, an inexact step whose
// effect is not known, a non-dyadic constant) is *undecided*, never a pass and never a violation.
//
// round_places(x, n): interpreted with the symbol P = 10^n (n ≥ 0): values carry a power of P as a scale and (k, t)
// decompose y = x·P. The clause |r − x| ≤ ½·10^-n becomes |g − y| ≤ ½ for the form g with r = g/P. This is the
// real-number model (the rounding error of x·P and of the final division is inherent to the function and not
// modelled); in addition the body is interpreted with n = 0 (P = 1, every step exact), where the clause is decided
// for the computed doubles.

import (
	"fmt"
	"go/ast"
	"go/constant"
	"go/token"
	"go/types"
	"math/big"
	"sort"
	"strings"
)

type nRegion struct {
	tc int // 0: t=0, 1: 0<t<½, 2: t=½, 3: ½<t<1
	ks int // +1: x>0, 0: x=0, -1: x<0
}

var nRegions = []nRegion{{0, 1}, {0, 0}, {0, -1}, {1, 1}, {1, -1}, {2, 1}, {2, -1}, {3, 1}, {3, -1}}

func (r nRegion) String() string {
	s := map[int]string{1: "x>0", 0: "x=0", -1: "x<0"}[r.ks]
	t := []string{"x integer", "fraction in (0,½)", "fraction = ½", "fraction in (½,1)"}[r.tc]
	return s + ", " + t
}

// k range [lo, hi]; nil = unbounded
func (r nRegion) kRange() (lo, hi *big.Rat) {
	switch {
	case r.tc == 0 && r.ks == 1:
		return big.NewRat(1, 1), nil
	case r.tc == 0 && r.ks == 0:
		return new(big.Rat), new(big.Rat)
	case r.ks == 1:
		return new(big.Rat), nil
	default:
		return nil, big.NewRat(-1, 1)
	}
}

// t range with openness
func (r nRegion) tRange() (lo, hi *big.Rat, open bool) {
	switch r.tc {
	case 0:
		return new(big.Rat), new(big.Rat), false
	case 1:
		return new(big.Rat), big.NewRat(1, 2), true
	case 2:
		return big.NewRat(1, 2), big.NewRat(1, 2), false
	}
	return big.NewRat(1, 2), big.NewRat(1, 1), true
}

func (r nRegion) sampleK() []int64 {
	var out []int64
	lo, hi := r.kRange()
	for k := int64(-3); k <= 3; k++ {
		kr := big.NewRat(k, 1)
		if lo != nil && kr.Cmp(lo) < 0 || hi != nil && kr.Cmp(hi) > 0 {
			continue
		}
		out = append(out, k)
	}
	return out
}

func (r nRegion) sampleT() []*big.Rat {
	switch r.tc {
	case 0:
		return []*big.Rat{new(big.Rat)}
	case 1:
		return []*big.Rat{big.NewRat(1, 4), big.NewRat(1, 8), big.NewRat(3, 8)}
	case 2:
		return []*big.Rat{big.NewRat(1, 2)}
	}
	return []*big.Rat{big.NewRat(3, 4), big.NewRat(5, 8), big.NewRat(7, 8)}
}

const (
	nvAff = iota
	nvBool
	nvTuple
	nvFunc
)

type nVal struct {
	kind    int
	a, b, c *big.Rat
	scale   int      // power of P = 10^places
	inexact string   // "" = the value is the computed double; otherwise what was not exact
	pert    *big.Rat // when inexact because of ±x + pert
	scaled  bool     // went through a multiplication/division by P (real-number model only)
	tri     int      // nvBool: 1, 0, -1 unknown
	tuple   []*nVal
	plc     int // ±1: this constant is ± the number-of-places parameter of the symbolic run (its power of ten is the symbol P)
	fn      *nFuncVal
}

type nFuncVal struct {
	std  *types.Func  // standard library function
	decl *Func        // module function with a body
	lit  *ast.FuncLit // function literal
	info *types.Info  // for lit
	env  map[types.Object]*nVal
}

type nLeave struct {
	msg string
	pos token.Pos
}

func rat(n, d int64) *big.Rat { return big.NewRat(n, d) }

func affConst(c *big.Rat) *nVal {
	return &nVal{kind: nvAff, a: new(big.Rat), b: new(big.Rat), c: new(big.Rat).Set(c)}
}

func (v *nVal) isConst() bool { return v.kind == nvAff && v.a.Sign() == 0 && v.b.Sign() == 0 }
func (v *nVal) intValued() bool {
	return v.kind == nvAff && v.scale == 0 && v.b.Sign() == 0 && v.a.IsInt() && v.c.IsInt()
}
func (v *nVal) String() string {
	switch v.kind {
	case nvBool:
		return map[int]string{1: "true", 0: "false", -1: "unknown"}[v.tri]
	case nvAff:
		s := fmt.Sprintf("%s·k + %s·t + %s", v.a.RatString(), v.b.RatString(), v.c.RatString())
		if v.scale != 0 {
			s = fmt.Sprintf("(%s)·P^%d", s, v.scale)
		}
		return s
	}
	return "?"
}

func isDyadicSmall(r *big.Rat) bool {
	d := r.Denom()
	if d.BitLen() > 12 {
		return false
	}
	// power of two
	one := big.NewInt(1)
	if new(big.Int).And(d, new(big.Int).Sub(d, one)).Sign() != 0 {
		return false
	}
	return r.Num().BitLen() <= 24
}

type nEval struct {
	w         *World
	region    nRegion
	symbolicP bool // round_places: P symbolic (true) or places = 0 (false)
	placesObj types.Object
	xObj      types.Object
	nonDyadic bool
	depth     int
	steps     int
}

func (ev *nEval) leave(pos token.Pos, format string, a ...interface{}) {
	panic(nLeave{fmt.Sprintf(format, a...), pos})
}

// ---- interval reasoning over the class ----

// bounds of a·k + b·t + c over the class: inf/sup (nil = infinite) and whether they are attained
func (ev *nEval) bounds(v *nVal) (inf, sup *big.Rat, infAtt, supAtt bool) {
	klo, khi := ev.region.kRange()
	tlo, thi, topen := ev.region.tRange()
	inf, sup = new(big.Rat).Set(v.c), new(big.Rat).Set(v.c)
	infAtt, supAtt = true, true
	add := func(coef, lo, hi *big.Rat, open bool) {
		if coef.Sign() == 0 {
			return
		}
		l, h := lo, hi
		if coef.Sign() < 0 {
			l, h = hi, lo
		}
		// inf uses l, sup uses h
		if inf != nil {
			if l == nil {
				inf = nil
			} else {
				inf.Add(inf, new(big.Rat).Mul(coef, l))
				if open && lo != nil && hi != nil && lo.Cmp(hi) != 0 {
					infAtt = false
				}
			}
		}
		if sup != nil {
			if h == nil {
				sup = nil
			} else {
				sup.Add(sup, new(big.Rat).Mul(coef, h))
				if open && lo != nil && hi != nil && lo.Cmp(hi) != 0 {
					supAtt = false
				}
			}
		}
	}
	add(v.a, klo, khi, false)
	add(v.b, tlo, thi, topen)
	return
}

// sign over the class: +1 (>0 everywhere), -1, 0 (==0 everywhere), +2 (>=0), -2 (<=0), 9 unknown
func (ev *nEval) signOver(v *nVal) int {
	inf, sup, infAtt, supAtt := ev.bounds(v)
	if inf != nil && sup != nil && inf.Sign() == 0 && sup.Sign() == 0 {
		return 0
	}
	if inf != nil && (inf.Sign() > 0 || inf.Sign() == 0 && !infAtt) {
		return 1
	}
	if sup != nil && (sup.Sign() < 0 || sup.Sign() == 0 && !supAtt) {
		return -1
	}
	if inf != nil && inf.Sign() == 0 {
		return 2
	}
	if sup != nil && sup.Sign() == 0 {
		return -2
	}
	return 9
}

// ---- arithmetic ----

func (ev *nEval) xForm() *nVal {
	v := &nVal{kind: nvAff, a: rat(1, 1), b: rat(1, 1), c: new(big.Rat)}
	if ev.region.tc == 0 {
		v.b = new(big.Rat) // t = 0 in this class: x is the integer k
	}
	if ev.symbolicP {
		v.scale = -1
	}
	return v
}

func (ev *nEval) neg(v *nVal) *nVal {
	r := *v
	r.a, r.b, r.c = new(big.Rat).Neg(v.a), new(big.Rat).Neg(v.b), new(big.Rat).Neg(v.c)
	return &r
}

func (ev *nEval) isPlusMinusX(v *nVal) bool {
	return v.kind == nvAff && v.c.Sign() == 0 && (v.a.Cmp(v.b) == 0 || ev.region.tc == 0 && v.b.Sign() == 0) && (v.a.Cmp(rat(1, 1)) == 0 || v.a.Cmp(rat(-1, 1)) == 0) && v.inexact == ""
}

func (ev *nEval) add(pos token.Pos, l, r *nVal, sub bool) *nVal {
	if l.kind != nvAff || r.kind != nvAff {
		ev.leave(pos, "addition of values outside the affine domain")
	}
	if sub {
		r = ev.neg(r)
	}
	if l.scale != r.scale {
		if l.isConst() && l.c.Sign() == 0 {
			return r
		}
		if r.isConst() && r.c.Sign() == 0 {
			return l
		}
		ev.leave(pos, "sum of terms with different powers of 10^places")
	}
	out := &nVal{kind: nvAff, a: new(big.Rat).Add(l.a, r.a), b: new(big.Rat).Add(l.b, r.b), c: new(big.Rat).Add(l.c, r.c), scale: l.scale, scaled: l.scaled || r.scaled}
	switch {
	case l.inexact != "" || r.inexact != "":
		out.inexact = l.inexact + r.inexact
	case l.isConst() && l.c.Sign() == 0, r.isConst() && r.c.Sign() == 0:
		// adding zero
	case l.intValued() && r.intValued():
		// integers below 2^53 (|x| < 2^52: the coefficient of k must stay within ±2)
		if new(big.Rat).Abs(out.a).Cmp(rat(2, 1)) > 0 {
			out.inexact = "a sum of integers that can exceed 2^53"
		}
	case l.scale != 0 || l.scaled || r.scaled:
		out.inexact = "a sum of scaled terms"
	default:
		// ±x + I with |result| <= |x| over the class: exact
		var xv, iv *nVal
		if ev.isPlusMinusX(l) && (r.intValued() || r.isConst()) {
			xv, iv = l, r
		} else if ev.isPlusMinusX(r) && (l.intValued() || l.isConst()) {
			xv, iv = r, l
		}
		exact := false
		if xv != nil {
			absX := xv
			if s := ev.signOver(xv); s == -1 || s == -2 {
				absX = ev.neg(xv)
			} else if s == 9 {
				absX = nil
			}
			if absX != nil {
				absR := out
				sr := ev.signOver(out)
				if sr == -1 || sr == -2 {
					absR = ev.neg(out)
				}
				if sr != 9 {
					d := &nVal{kind: nvAff, a: new(big.Rat).Sub(absX.a, absR.a), b: new(big.Rat).Sub(absX.b, absR.b), c: new(big.Rat).Sub(absX.c, absR.c)}
					if s := ev.signOver(d); s == 0 || s == 1 || s == 2 {
						exact = true
					}
				}
			}
		}
		if !exact {
			out.inexact = "the floating-point sum " + l.String() + " + " + r.String() + " can round"
			if xv != nil && iv.isConst() {
				out.pert = new(big.Rat).Abs(iv.c) // |c|: the table of witnesses is symmetric
			}
		}
	}
	return out
}

func isPow2(r *big.Rat) bool {
	if r.Sign() == 0 {
		return false
	}
	n, d := new(big.Int).Abs(r.Num()), r.Denom()
	one := big.NewInt(1)
	p2 := func(x *big.Int) bool { return new(big.Int).And(x, new(big.Int).Sub(x, one)).Sign() == 0 }
	return p2(n) && p2(d)
}

func (ev *nEval) mul(pos token.Pos, l, r *nVal, div bool) *nVal {
	if l.kind != nvAff || r.kind != nvAff {
		ev.leave(pos, "product of values outside the affine domain")
	}
	if div {
		if !r.isConst() || r.c.Sign() == 0 {
			ev.leave(pos, "division by a value that is not a non-zero constant")
		}
		inv := *r
		inv.c = new(big.Rat).Inv(r.c)
		inv.scale = -r.scale
		if !isPow2(r.c) && r.scale == 0 {
			inv.inexact = "a division by " + r.c.RatString() + " can round"
		}
		r = &inv
	}
	cv, ov := r, l
	if !cv.isConst() {
		cv, ov = l, r
	}
	if !cv.isConst() {
		ev.leave(pos, "product of two non-constant values")
	}
	out := &nVal{kind: nvAff, a: new(big.Rat).Mul(ov.a, cv.c), b: new(big.Rat).Mul(ov.b, cv.c), c: new(big.Rat).Mul(ov.c, cv.c), scale: ov.scale + cv.scale, scaled: ov.scaled || cv.scaled || cv.scale != 0}
	out.inexact = ov.inexact + cv.inexact
	if ov.pert != nil && (cv.c.Cmp(rat(1, 1)) == 0 || cv.c.Cmp(rat(-1, 1)) == 0) {
		out.pert = ov.pert
	}
	if out.inexact == "" && cv.scale == 0 {
		switch {
		case isPow2(cv.c) || cv.c.Sign() == 0:
		case ov.isConst():
			// constant folding: the compiler computes it exactly only for constants; keep it as inexact unless integers
			if !(ov.c.IsInt() && cv.c.IsInt()) {
				out.inexact = "a product of constants can round"
			}
		case ov.intValued() && cv.c.IsInt() && new(big.Rat).Abs(cv.c).Cmp(rat(2, 1)) <= 0: // stays below 2^53 for |x| < 2^52
		default:
			out.inexact = "a multiplication by " + cv.c.RatString() + " can round"
		}
	}
	return out
}

// atom applies a rounding function to v over the class.
func (ev *nEval) atom(pos token.Pos, name string, v *nVal) *nVal {
	if v.kind != nvAff {
		ev.leave(pos, "math.%s of a value outside the affine domain", name)
	}
	if v.scale != 0 {
		ev.leave(pos, "math.%s of a value that still carries a power of 10^places", name)
	}
	one, mone := rat(1, 1), rat(-1, 1)
	if !(v.a.IsInt() && v.c.IsInt() && (v.b.Sign() == 0 || v.b.Cmp(one) == 0 || v.b.Cmp(mone) == 0)) {
		// x + c with a non-integer constant c: still an (inexact) perturbation of x, recorded for the caller
		if v.pert != nil && v.a.IsInt() && (v.b.Cmp(one) == 0 || v.b.Cmp(mone) == 0) {
			// continue with the real-number value: I + frac handling below needs an integer c; split c
			return ev.atomPerturbed(pos, name, v)
		}
		ev.leave(pos, "the argument of math.%s (%s) is not an integer plus or minus the fractional part", name, v.String())
	}
	I := &nVal{kind: nvAff, a: new(big.Rat).Set(v.a), b: new(big.Rat), c: new(big.Rat).Set(v.c), scaled: v.scaled}
	I.inexact, I.pert = v.inexact, v.pert
	bump := func(n int64) *nVal {
		r := *I
		r.c = new(big.Rat).Add(I.c, rat(n, 1))
		return &r
	}
	tc := ev.region.tc
	bs := v.b.Sign()
	if bs == 0 || tc == 0 {
		return I // already an integer
	}
	argSign := func() int {
		s := ev.signOver(v)
		if s == 9 || s == 2 || s == -2 {
			// 2/-2 cannot be zero here: the argument has a non-zero fractional part
			if s == 2 {
				return 1
			}
			if s == -2 {
				return -1
			}
			ev.leave(pos, "the sign of the argument of math.%s (%s) is not determined over the class %s", name, v.String(), ev.region)
		}
		return s
	}
	switch name {
	case "Floor":
		if bs > 0 {
			return I
		}
		return bump(-1)
	case "Ceil":
		if bs > 0 {
			return bump(1)
		}
		return I
	case "Trunc":
		if argSign() > 0 {
			return ev.atom(pos, "Floor", v)
		}
		return ev.atom(pos, "Ceil", v)
	case "Round":
		// fractional part of the argument: t (bs>0) or 1−t above I−1 (bs<0)
		switch {
		case bs > 0 && tc == 1, bs < 0 && tc == 1:
			return I
		case bs > 0 && tc == 3:
			return bump(1)
		case bs < 0 && tc == 3:
			return bump(-1)
		}
		// t = ½: away from zero
		if argSign() > 0 {
			if bs > 0 {
				return bump(1)
			}
			return I
		}
		if bs > 0 {
			return I
		}
		return bump(-1)
	}
	ev.leave(pos, "math.%s is not modelled", name)
	return nil
}

// atomPerturbed: rounding function of x + c with a non-integer constant c (e.g. Floor(x + 0.5)); the real-number
// value is computed on the finer grid when c is a multiple of ½, and the result stays marked as perturbed.
func (ev *nEval) atomPerturbed(pos token.Pos, name string, v *nVal) *nVal {
	half := rat(1, 2)
	twoC := new(big.Rat).Mul(v.c, rat(2, 1))
	if !twoC.IsInt() || v.b.Cmp(rat(1, 1)) != 0 {
		ev.leave(pos, "the argument of math.%s is x shifted by %s: outside the domain", name, v.c.RatString())
	}
	// v = a·k + t + (m + ½) with m integer
	m := new(big.Rat).Sub(v.c, half)
	I := &nVal{kind: nvAff, a: new(big.Rat).Set(v.a), b: new(big.Rat), c: m, inexact: v.inexact, pert: v.pert}
	bump := func(n int64) *nVal {
		r := *I
		r.c = new(big.Rat).Add(I.c, rat(n, 1))
		return &r
	}
	// fractional part of the argument is t + ½ (mod 1): tc 0 → ½, tc 1 → (½,1), tc 2 → 0 (+1), tc 3 → (0,½) (+1)
	switch name {
	case "Floor":
		if ev.region.tc >= 2 {
			return bump(1)
		}
		return I
	case "Ceil":
		if ev.region.tc == 2 {
			return bump(1)
		}
		if ev.region.tc == 3 {
			return bump(2)
		}
		return bump(1)
	}
	ev.leave(pos, "math.%s of x shifted by %s: outside the domain", name, v.c.RatString())
	return nil
}

// ---- expressions ----

func (ev *nEval) constVal(tv types.TypeAndValue, pos token.Pos) *nVal {
	switch tv.Value.Kind() {
	case constant.Bool:
		t := 0
		if constant.BoolVal(tv.Value) {
			t = 1
		}
		return &nVal{kind: nvBool, tri: t}
	case constant.Int, constant.Float:
		r, ok := new(big.Rat).SetString(tv.Value.ExactString())
		if !ok {
			ev.leave(pos, "constant %s is not a rational", tv.Value.String())
		}
		if !isDyadicSmall(r) {
			ev.nonDyadic = true
		}
		return affConst(r)
	}
	ev.leave(pos, "constant of an unexpected kind")
	return nil
}

func (ev *nEval) expr(info *types.Info, env map[types.Object]*nVal, e ast.Expr) *nVal {
	ev.steps++
	if ev.steps > 20000 {
		ev.leave(e.Pos(), "interpretation budget exhausted")
	}
	e = unparen(e)
	if tv, ok := info.Types[e]; ok && tv.Value != nil {
		return ev.constVal(tv, e.Pos())
	}
	switch n := e.(type) {
	case *ast.Ident:
		obj := info.Uses[n]
		if obj == nil {
			obj = info.Defs[n]
		}
		if v, ok := env[obj]; ok {
			if v == nil {
				ev.leave(n.Pos(), "%s has no single value over the class", n.Name)
			}
			return v
		}
		if fv := ev.funcValue(info, env, n); fv != nil {
			return &nVal{kind: nvFunc, fn: fv}
		}
		if pv, ok := obj.(*types.Var); ok && pv.Pkg() != nil && pv.Parent() == pv.Pkg().Scope() {
			if init, pinfo := ev.pkgVarInit(pv); init != nil {
				return ev.expr(pinfo, map[types.Object]*nVal{}, init)
			}
		}
		ev.leave(n.Pos(), "%s is not a value of the domain", n.Name)
	case *ast.UnaryExpr:
		v := ev.expr(info, env, n.X)
		switch n.Op {
		case token.SUB:
			if v.kind != nvAff {
				ev.leave(n.Pos(), "negation outside the domain")
			}
			nv := ev.neg(v)
			nv.plc = -v.plc
			return nv
		case token.ADD:
			return v
		case token.NOT:
			if v.kind != nvBool {
				ev.leave(n.Pos(), "! of a non-boolean")
			}
			if v.tri < 0 {
				return v
			}
			return &nVal{kind: nvBool, tri: 1 - v.tri}
		}
		ev.leave(n.Pos(), "operator %s is not modelled", n.Op)
	case *ast.BinaryExpr:
		switch n.Op {
		case token.LAND, token.LOR:
			l := ev.expr(info, env, n.X)
			if l.kind != nvBool {
				ev.leave(n.Pos(), "logical operator on a non-boolean")
			}
			if n.Op == token.LAND && l.tri == 0 || n.Op == token.LOR && l.tri == 1 {
				return l
			}
			r := ev.expr(info, env, n.Y)
			if r.kind != nvBool {
				ev.leave(n.Pos(), "logical operator on a non-boolean")
			}
			if l.tri >= 0 {
				return r
			}
			if n.Op == token.LAND && r.tri == 0 || n.Op == token.LOR && r.tri == 1 {
				return r
			}
			return &nVal{kind: nvBool, tri: -1}
		}
		l, r := ev.expr(info, env, n.X), ev.expr(info, env, n.Y)
		switch n.Op {
		case token.ADD:
			return ev.add(n.Pos(), l, r, false)
		case token.SUB:
			return ev.add(n.Pos(), l, r, true)
		case token.MUL:
			return ev.mul(n.Pos(), l, r, false)
		case token.QUO:
			if isIntegerType(info.TypeOf(n)) {
				ev.leave(n.Pos(), "integer division is not modelled")
			}
			return ev.mul(n.Pos(), l, r, true)
		case token.EQL, token.NEQ, token.LSS, token.LEQ, token.GTR, token.GEQ:
			if l.kind == nvBool && r.kind == nvBool && l.tri >= 0 && r.tri >= 0 && (n.Op == token.EQL || n.Op == token.NEQ) {
				t := 0
				if (l.tri == r.tri) == (n.Op == token.EQL) {
					t = 1
				}
				return &nVal{kind: nvBool, tri: t}
			}
			if l.kind != nvAff || r.kind != nvAff {
				ev.leave(n.Pos(), "comparison outside the domain")
			}
			if l.inexact != "" || r.inexact != "" {
				return &nVal{kind: nvBool, tri: -1}
			}
			d := ev.add(n.Pos(), l, r, true)
			if d.scale != 0 {
				// P > 0: the sign is that of the form
				d = &nVal{kind: nvAff, a: d.a, b: d.b, c: d.c}
			}
			s := ev.signOver(d)
			tri := -1
			switch n.Op {
			case token.EQL:
				if s == 0 {
					tri = 1
				} else if s == 1 || s == -1 {
					tri = 0
				}
			case token.NEQ:
				if s == 0 {
					tri = 0
				} else if s == 1 || s == -1 {
					tri = 1
				}
			case token.LSS:
				if s == -1 {
					tri = 1
				} else if s == 0 || s == 1 || s == 2 {
					tri = 0
				}
			case token.LEQ:
				if s == -1 || s == 0 || s == -2 {
					tri = 1
				} else if s == 1 {
					tri = 0
				}
			case token.GTR:
				if s == 1 {
					tri = 1
				} else if s == 0 || s == -1 || s == -2 {
					tri = 0
				}
			case token.GEQ:
				if s == 1 || s == 0 || s == 2 {
					tri = 1
				} else if s == -1 {
					tri = 0
				}
			}
			return &nVal{kind: nvBool, tri: tri}
		}
		ev.leave(n.Pos(), "operator %s is not modelled", n.Op)
	case *ast.CallExpr:
		return ev.call(info, env, n)
	case *ast.IndexExpr:
		// a table of constants (a package-level array or slice that nothing assigns) indexed by a known integer
		if id, ok := unparen(n.X).(*ast.Ident); ok {
			if pv, ok := info.Uses[id].(*types.Var); ok && pv.Pkg() != nil && pv.Parent() == pv.Pkg().Scope() {
				if init, pinfo := ev.pkgVarInit(pv); init != nil {
					if cl, ok := unparen(init).(*ast.CompositeLit); ok {
						iv := ev.expr(info, env, n.Index)
						if iv.kind != nvAff || !iv.isConst() || !iv.c.IsInt() || iv.scale != 0 {
							ev.leave(n.Pos(), "table index is not a known integer")
						}
						i := iv.c.Num().Int64()
						if i < 0 || i >= int64(len(cl.Elts)) {
							ev.leave(n.Pos(), "table index %d is out of range (the built-in would panic)", i)
						}
						el := cl.Elts[i]
						if _, keyed := el.(*ast.KeyValueExpr); keyed {
							ev.leave(n.Pos(), "keyed table literal is not modelled")
						}
						tv, ok := pinfo.Types[el]
						if !ok || tv.Value == nil {
							ev.leave(n.Pos(), "table element is not a constant")
						}
						cv := ev.constVal(tv, n.Pos())
						// the entry for the number of places itself: 10^places, the symbol P
						if iv.plc == 1 && i >= 0 && i <= 20 && cv.kind == nvAff {
							p10 := new(big.Rat).SetInt(new(big.Int).Exp(big.NewInt(10), big.NewInt(i), nil))
							if cv.c.Cmp(p10) == 0 {
								return &nVal{kind: nvAff, a: new(big.Rat), b: new(big.Rat), c: rat(1, 1), scale: 1}
							}
						}
						return cv
					}
				}
			}
		}
		ev.leave(n.Pos(), "index expression outside a constant table")
	case *ast.FuncLit:
		return &nVal{kind: nvFunc, fn: &nFuncVal{lit: n, info: info, env: env}}
	case *ast.SelectorExpr:
		if fv := ev.funcValue(info, env, n); fv != nil {
			return &nVal{kind: nvFunc, fn: fv}
		}
	}
	ev.leave(e.Pos(), "expression form %T is not modelled", e)
	return nil
}

func isIntegerType(t types.Type) bool {
	if t == nil {
		return false
	}
	b, ok := t.Underlying().(*types.Basic)
	return ok && b.Info()&types.IsInteger != 0
}

func isFloat64(t types.Type) bool {
	b, ok := t.Underlying().(*types.Basic)
	return ok && b.Kind() == types.Float64
}

// pkgVarInit: initializer of a package-level variable that nothing assigns
func (ev *nEval) pkgVarInit(v *types.Var) (ast.Expr, *types.Info) {
	w := ev.w
	for _, p := range w.Pkgs {
		if p.Types != v.Pkg() {
			continue
		}
		assigned := false
		var init ast.Expr
		for _, f := range p.Syntax {
			ast.Inspect(f, func(n ast.Node) bool {
				switch s := n.(type) {
				case *ast.AssignStmt:
					for _, l := range s.Lhs {
						if id := identOf(l); id != nil && p.TypesInfo.Uses[id] == types.Object(v) {
							assigned = true
						}
					}
				case *ast.IncDecStmt:
					if id := identOf(s.X); id != nil && p.TypesInfo.Uses[id] == types.Object(v) {
						assigned = true
					}
				case *ast.UnaryExpr:
					if s.Op == token.AND {
						if id := identOf(s.X); id != nil && p.TypesInfo.Uses[id] == types.Object(v) {
							assigned = true
						}
					}
				case *ast.ValueSpec:
					for i, nm := range s.Names {
						if p.TypesInfo.Defs[nm] == types.Object(v) && len(s.Values) == len(s.Names) {
							init = s.Values[i]
						}
					}
				}
				return true
			})
		}
		if assigned || v.Exported() {
			return nil, nil
		}
		return init, p.TypesInfo
	}
	return nil, nil
}

// funcValue resolves an expression used as a function.
func (ev *nEval) funcValue(info *types.Info, env map[types.Object]*nVal, e ast.Expr) *nFuncVal {
	e = unparen(e)
	switch n := e.(type) {
	case *ast.FuncLit:
		return &nFuncVal{lit: n, info: info, env: env}
	case *ast.Ident:
		switch obj := info.Uses[n].(type) {
		case *types.Func:
			return ev.funcOf(obj)
		case *types.Var:
			if v, ok := env[obj]; ok && v != nil && v.kind == nvFunc {
				return v.fn
			}
			if obj.Pkg() != nil && obj.Parent() == obj.Pkg().Scope() {
				if init, pinfo := ev.pkgVarInit(obj); init != nil {
					return ev.funcValue(pinfo, map[types.Object]*nVal{}, init)
				}
			}
		}
	case *ast.SelectorExpr:
		if fn, ok := info.Uses[n.Sel].(*types.Func); ok {
			if sig, ok := fn.Type().(*types.Signature); ok && sig.Recv() == nil {
				return ev.funcOf(fn)
			}
		}
	}
	return nil
}

func (ev *nEval) funcOf(fn *types.Func) *nFuncVal {
	if fn.Pkg() != nil && fn.Pkg().Path() == "math" {
		return &nFuncVal{std: fn}
	}
	if g := ev.w.byObj[fn]; g != nil && g.Body != nil {
		return &nFuncVal{decl: g}
	}
	return nil
}

func (ev *nEval) call(info *types.Info, env map[types.Object]*nVal, call *ast.CallExpr) *nVal {
	// conversion
	if tv, ok := info.Types[call.Fun]; ok && tv.IsType() && len(call.Args) == 1 {
		v := ev.expr(info, env, call.Args[0])
		from := info.TypeOf(call.Args[0])
		to := tv.Type
		tb, ok := to.Underlying().(*types.Basic)
		if !ok {
			ev.leave(call.Pos(), "conversion to %s is not modelled", to)
		}
		if v.kind != nvAff {
			ev.leave(call.Pos(), "conversion of a value outside the domain")
		}
		if v.plc != 0 {
			return v
		}
		switch {
		case tb.Kind() == types.Float64 || tb.Kind() == types.UntypedFloat:
			return v // int → float64 (integers below 2^53) and float64 → float64 are exact
		case tb.Kind() == types.Int || tb.Kind() == types.Int64:
			if from != nil && isIntegerType(from) {
				return v
			}
			return ev.atom(call.Pos(), "Trunc", v) // float → integer conversion truncates toward zero (|x| < 2^52 fits; int is 64-bit on the supported platforms)
		}
		ev.leave(call.Pos(), "conversion to %s can lose information and is not modelled", to)
	}
	if id, ok := unparen(call.Fun).(*ast.Ident); ok {
		if b, ok := info.Uses[id].(*types.Builtin); ok && (b.Name() == "min" || b.Name() == "max") && len(call.Args) >= 1 {
			cur := ev.expr(info, env, call.Args[0])
			for _, a := range call.Args[1:] {
				cur = ev.std(call.Pos(), map[string]string{"min": "Min", "max": "Max"}[b.Name()], []*nVal{cur, ev.expr(info, env, a)})
			}
			return cur
		}
	}
	fv := ev.funcValue(info, env, call.Fun)
	if fv == nil {
		ev.leave(call.Pos(), "callee of %s is not resolved to a function of the domain", exprStr(call.Fun))
	}
	var args []*nVal
	for _, a := range call.Args {
		args = append(args, ev.expr(info, env, a))
	}
	return ev.apply(call.Pos(), fv, args)
}

func (ev *nEval) apply(pos token.Pos, fv *nFuncVal, args []*nVal) *nVal {
	if fv.std != nil {
		return ev.std(pos, fv.std.Name(), args)
	}
	ev.depth++
	defer func() { ev.depth-- }()
	if ev.depth > 12 {
		ev.leave(pos, "helper nesting too deep (recursion?)")
	}
	var ft *ast.FuncType
	var body *ast.BlockStmt
	var finfo *types.Info
	env := map[types.Object]*nVal{}
	if fv.decl != nil {
		ft, body, finfo = fv.decl.Type, fv.decl.Body, fv.decl.Pkg.TypesInfo
		if fv.decl.Decl != nil && fv.decl.Decl.Recv != nil {
			ev.leave(pos, "method calls are not modelled")
		}
	} else {
		ft, body, finfo = fv.lit.Type, fv.lit.Body, fv.info
		for k, v := range fv.env {
			env[k] = v
		}
	}
	i := 0
	for _, fld := range ft.Params.List {
		if _, variadic := fld.Type.(*ast.Ellipsis); variadic {
			ev.leave(pos, "variadic helpers are not modelled")
		}
		for _, nm := range fld.Names {
			if i >= len(args) {
				ev.leave(pos, "argument count mismatch")
			}
			env[finfo.Defs[nm]] = args[i]
			i++
		}
		if len(fld.Names) == 0 {
			i++
		}
	}
	if i != len(args) {
		ev.leave(pos, "argument count mismatch")
	}
	var named []types.Object
	if ft.Results != nil {
		for _, fld := range ft.Results.List {
			for _, nm := range fld.Names {
				obj := finfo.Defs[nm]
				named = append(named, obj)
				env[obj] = affConst(new(big.Rat))
			}
		}
	}
	ret, returned := ev.block(finfo, env, body.List, named)
	if !returned {
		ev.leave(pos, "the function can end without returning a value")
	}
	return ret
}

func (ev *nEval) std(pos token.Pos, name string, args []*nVal) *nVal {
	aff := func(i int) *nVal {
		if i >= len(args) || args[i].kind != nvAff {
			ev.leave(pos, "math.%s of a value outside the domain", name)
		}
		return args[i]
	}
	switch name {
	case "Floor", "Ceil", "Trunc", "Round":
		return ev.atom(pos, name, aff(0))
	case "Mod":
		d := aff(1)
		if !d.isConst() || d.c.Cmp(rat(1, 1)) != 0 || d.scale != 0 {
			ev.leave(pos, "math.Mod with a divisor other than 1 is not modelled")
		}
		v := aff(0)
		tr := ev.atom(pos, "Trunc", v)
		r := ev.add(pos, v, tr, true)
		r.inexact, r.pert = v.inexact, v.pert // Mod is exact
		return r
	case "Modf":
		v := aff(0)
		tr := ev.atom(pos, "Trunc", v)
		fr := ev.add(pos, v, tr, true)
		fr.inexact, fr.pert = v.inexact, v.pert
		return &nVal{kind: nvTuple, tuple: []*nVal{tr, fr}}
	case "Abs":
		v := aff(0)
		switch ev.signOver(v) {
		case 1, 2, 0:
			return v
		case -1, -2:
			return ev.neg(v)
		}
		ev.leave(pos, "the sign of the argument of math.Abs is not determined over the class")
	case "Copysign":
		v, s := aff(0), aff(1)
		var mag *nVal
		switch ev.signOver(v) {
		case 1, 2, 0:
			mag = v
		case -1, -2:
			mag = ev.neg(v)
		default:
			ev.leave(pos, "the sign of the first argument of math.Copysign is not determined")
		}
		switch ev.signOver(s) {
		case 1:
			return mag
		case -1:
			return ev.neg(mag)
		}
		if mag.isConst() && mag.c.Sign() == 0 {
			return mag
		}
		ev.leave(pos, "the sign (bit) of the second argument of math.Copysign is not determined over the class")
	case "Signbit":
		switch ev.signOver(aff(0)) {
		case 1:
			return &nVal{kind: nvBool, tri: 0}
		case -1:
			return &nVal{kind: nvBool, tri: 1}
		}
		return &nVal{kind: nvBool, tri: -1}
	case "IsNaN":
		return &nVal{kind: nvBool, tri: 0}
	case "IsInf":
		return &nVal{kind: nvBool, tri: 0}
	case "Max", "Min":
		l, r := aff(0), aff(1)
		if l.inexact != "" || r.inexact != "" {
			ev.leave(pos, "math.%s of inexact values", name)
		}
		d := ev.add(pos, l, r, true)
		s := ev.signOver(&nVal{kind: nvAff, a: d.a, b: d.b, c: d.c})
		geq := s == 1 || s == 2 || s == 0
		leq := s == -1 || s == -2 || s == 0
		if !geq && !leq {
			ev.leave(pos, "math.%s: the order of the arguments is not determined over the class", name)
		}
		if (name == "Max") == geq {
			return l
		}
		return r
	case "Pow10":
		if len(args) == 1 && args[0].kind == nvAff && args[0].plc != 0 {
			return &nVal{kind: nvAff, a: new(big.Rat), b: new(big.Rat), c: rat(1, 1), scale: args[0].plc}
		}
		v := aff(0)
		if v.isConst() && v.c.IsInt() && v.c.Num().IsInt64() && v.scale == 0 {
			n := v.c.Num().Int64()
			if n >= -20 && n <= 20 {
				p := new(big.Rat).SetInt(new(big.Int).Exp(big.NewInt(10), big.NewInt(abs64(n)), nil))
				if n < 0 {
					p.Inv(p)
					ev.nonDyadic = true
				}
				return affConst(p)
			}
		}
		ev.leave(pos, "math.Pow10 of a value that is neither a constant nor the number of places")
	case "Pow":
		b := aff(0)
		if b.isConst() && b.c.Cmp(rat(10, 1)) == 0 && len(args) == 2 {
			return ev.std(pos, "Pow10", args[1:])
		}
		ev.leave(pos, "math.Pow with a base other than 10 is not modelled")
	}
	ev.leave(pos, "math.%s is not modelled", name)
	return nil
}

func abs64(n int64) int64 {
	if n < 0 {
		return -n
	}
	return n
}

// ---- statements ----

func copyEnv(env map[types.Object]*nVal) map[types.Object]*nVal {
	out := make(map[types.Object]*nVal, len(env))
	for k, v := range env {
		out[k] = v
	}
	return out
}

func sameVal(a, b *nVal) bool {
	if a == nil || b == nil || a.kind != b.kind {
		return false
	}
	switch a.kind {
	case nvAff:
		return a.a.Cmp(b.a) == 0 && a.b.Cmp(b.b) == 0 && a.c.Cmp(b.c) == 0 && a.scale == b.scale && a.inexact == b.inexact
	case nvBool:
		return a.tri == b.tri && a.tri >= 0
	}
	return false
}

// block interprets statements; returns (value, true) when every path returned.
func (ev *nEval) block(info *types.Info, env map[types.Object]*nVal, stmts []ast.Stmt, named []types.Object) (*nVal, bool) {
	for i, s := range stmts {
		switch n := s.(type) {
		case *ast.ReturnStmt:
			switch len(n.Results) {
			case 0:
				if len(named) == 1 {
					return env[named[0]], true
				}
				ev.leave(n.Pos(), "bare return")
			case 1:
				return ev.expr(info, env, n.Results[0]), true
			default:
				var t []*nVal
				for _, r := range n.Results {
					if isNilExpr(info, r) {
						t = append(t, &nVal{kind: nvBool, tri: -1})
						continue
					}
					t = append(t, ev.expr(info, env, r))
				}
				return &nVal{kind: nvTuple, tuple: t}, true
			}
		case *ast.AssignStmt:
			ev.assign(info, env, n)
		case *ast.IncDecStmt:
			id := identOf(n.X)
			if id == nil {
				ev.leave(n.Pos(), "increment of a non-variable")
			}
			obj := info.Uses[id]
			cur, ok := env[obj]
			if !ok || cur == nil {
				ev.leave(n.Pos(), "increment of an unknown variable")
			}
			env[obj] = ev.add(n.Pos(), cur, affConst(rat(1, 1)), n.Tok == token.DEC)
		case *ast.DeclStmt:
			gd, ok := n.Decl.(*ast.GenDecl)
			if !ok {
				ev.leave(n.Pos(), "declaration form not modelled")
			}
			for _, sp := range gd.Specs {
				vs, ok := sp.(*ast.ValueSpec)
				if !ok {
					continue // type declarations, constants are folded by the type checker
				}
				if gd.Tok == token.CONST {
					continue
				}
				for j, nm := range vs.Names {
					obj := info.Defs[nm]
					switch {
					case len(vs.Values) == len(vs.Names):
						env[obj] = ev.expr(info, env, vs.Values[j])
					case len(vs.Values) == 0:
						if b, ok := obj.Type().Underlying().(*types.Basic); ok && b.Info()&types.IsNumeric != 0 {
							env[obj] = affConst(new(big.Rat))
						} else if ok && b.Info()&types.IsBoolean != 0 {
							env[obj] = &nVal{kind: nvBool, tri: 0}
						} else {
							env[obj] = nil
						}
					default:
						ev.leave(n.Pos(), "declaration form not modelled")
					}
				}
			}
		case *ast.BlockStmt:
			if v, ret := ev.block(info, env, n.List, named); ret {
				return v, true
			}
		case *ast.IfStmt:
			if n.Init != nil {
				if as, ok := n.Init.(*ast.AssignStmt); ok {
					ev.assign(info, env, as)
				} else {
					ev.leave(n.Pos(), "if-initialiser form not modelled")
				}
			}
			cond := ev.expr(info, env, n.Cond)
			if cond.kind != nvBool {
				ev.leave(n.Pos(), "condition is not a boolean of the domain")
			}
			runElse := func(e map[types.Object]*nVal) (*nVal, bool) {
				switch el := n.Else.(type) {
				case nil:
					return nil, false
				case *ast.BlockStmt:
					return ev.block(info, e, el.List, named)
				case *ast.IfStmt:
					return ev.block(info, e, []ast.Stmt{el}, named)
				}
				ev.leave(n.Pos(), "else form not modelled")
				return nil, false
			}
			switch cond.tri {
			case 1:
				if v, ret := ev.block(info, env, n.Body.List, named); ret {
					return v, true
				}
			case 0:
				if v, ret := runElse(env); ret {
					return v, true
				}
			default:
				// undetermined over the class: both continuations must produce the same value
				rest := stmts[i+1:]
				e1, e2 := copyEnv(env), copyEnv(env)
				v1, r1 := ev.block(info, e1, n.Body.List, named)
				if !r1 {
					v1, r1 = ev.block(info, e1, rest, named)
				}
				v2, r2 := runElse(e2)
				if !r2 {
					v2, r2 = ev.block(info, e2, rest, named)
				}
				if r1 && r2 && sameVal(v1, v2) {
					return v1, true
				}
				ev.leave(n.Pos(), "the condition %s is not determined over the class %s and its two continuations differ", exprStr(n.Cond), ev.region)
			}
		case *ast.SwitchStmt:
			if n.Tag != nil || n.Init != nil {
				ev.leave(n.Pos(), "switch with a tag is not modelled")
			}
			// as an if-chain
			var chain ast.Stmt
			var def *ast.CaseClause
			var clauses []*ast.CaseClause
			for _, cs := range n.Body.List {
				cc := cs.(*ast.CaseClause)
				for _, st := range cc.Body {
					if br, ok := st.(*ast.BranchStmt); ok && br.Tok == token.FALLTHROUGH {
						ev.leave(n.Pos(), "fallthrough is not modelled")
					}
				}
				if cc.List == nil {
					def = cc
				} else {
					clauses = append(clauses, cc)
				}
			}
			var elseStmt ast.Stmt
			if def != nil {
				elseStmt = &ast.BlockStmt{List: def.Body}
			}
			for j := len(clauses) - 1; j >= 0; j-- {
				cc := clauses[j]
				var cond ast.Expr = cc.List[0]
				for _, o := range cc.List[1:] {
					cond = &ast.BinaryExpr{X: cond, Op: token.LOR, Y: o}
				}
				ifs := &ast.IfStmt{Cond: cond, Body: &ast.BlockStmt{List: cc.Body}, Else: elseStmt}
				elseStmt = ifs
			}
			chain = elseStmt
			if chain != nil {
				rest := append([]ast.Stmt{chain}, stmts[i+1:]...)
				if containsBreak(n) {
					ev.leave(n.Pos(), "break inside a switch is not modelled")
				}
				return ev.block(info, env, rest, named)
			}
		case *ast.EmptyStmt:
		default:
			ev.leave(s.Pos(), "statement form %T is not modelled", s)
		}
	}
	return nil, false
}

func containsBreak(n ast.Node) bool {
	found := false
	ast.Inspect(n, func(q ast.Node) bool {
		if _, ok := q.(*ast.FuncLit); ok {
			return false
		}
		if br, ok := q.(*ast.BranchStmt); ok && br.Tok == token.BREAK {
			found = true
		}
		return true
	})
	return found
}

func (ev *nEval) assign(info *types.Info, env map[types.Object]*nVal, n *ast.AssignStmt) {
	objOf := func(e ast.Expr) types.Object {
		id := identOf(e)
		if id == nil || unparen(e) != ast.Expr(id) {
			ev.leave(n.Pos(), "assignment to something other than a variable")
		}
		if id.Name == "_" {
			return nil
		}
		if o := info.Defs[id]; o != nil {
			return o
		}
		return info.Uses[id]
	}
	switch n.Tok {
	case token.DEFINE, token.ASSIGN:
		if len(n.Lhs) == len(n.Rhs) {
			vals := make([]*nVal, len(n.Rhs))
			for i, r := range n.Rhs {
				vals[i] = ev.expr(info, env, r)
			}
			for i, l := range n.Lhs {
				if o := objOf(l); o != nil {
					if pv, ok := o.(*types.Var); ok && pv.Pkg() != nil && pv.Parent() == pv.Pkg().Scope() {
						ev.leave(n.Pos(), "assignment to a package-level variable")
					}
					env[o] = vals[i]
				}
			}
			return
		}
		if len(n.Rhs) == 1 {
			v := ev.expr(info, env, n.Rhs[0])
			if v.kind != nvTuple || len(v.tuple) != len(n.Lhs) {
				ev.leave(n.Pos(), "multi-value assignment outside the domain")
			}
			for i, l := range n.Lhs {
				if o := objOf(l); o != nil {
					env[o] = v.tuple[i]
				}
			}
			return
		}
	case token.ADD_ASSIGN, token.SUB_ASSIGN, token.MUL_ASSIGN, token.QUO_ASSIGN:
		if len(n.Lhs) == 1 && len(n.Rhs) == 1 {
			o := objOf(n.Lhs[0])
			cur := env[o]
			if o == nil || cur == nil {
				ev.leave(n.Pos(), "compound assignment to an unknown variable")
			}
			r := ev.expr(info, env, n.Rhs[0])
			switch n.Tok {
			case token.ADD_ASSIGN:
				env[o] = ev.add(n.Pos(), cur, r, false)
			case token.SUB_ASSIGN:
				env[o] = ev.add(n.Pos(), cur, r, true)
			case token.MUL_ASSIGN:
				env[o] = ev.mul(n.Pos(), cur, r, false)
			case token.QUO_ASSIGN:
				if isIntegerType(info.TypeOf(n.Lhs[0])) {
					ev.leave(n.Pos(), "integer division is not modelled")
				}
				env[o] = ev.mul(n.Pos(), cur, r, true)
			}
			return
		}
	}
	ev.leave(n.Pos(), "assignment form not modelled")
}

// ---- driving: one built-in over the nine classes ----

type nResult struct {
	region nRegion
	val    *nVal  // nil when the interpretation left the domain
	left   string // why
	leftAt token.Pos
	nonDy  bool
}

func (w *World) numInterpret(fv *nFuncVal, nparams int, symbolicP bool, places int64) []nResult {
	var out []nResult
	for _, rg := range nRegions {
		ev := &nEval{w: w, region: rg, symbolicP: symbolicP}
		res := nResult{region: rg}
		func() {
			defer func() {
				if r := recover(); r != nil {
					if l, ok := r.(nLeave); ok {
						res.left, res.leftAt = l.msg, l.pos
						return
					}
					panic(r)
				}
			}()
			args := []*nVal{ev.xForm()}
			if nparams == 2 {
				pv := affConst(rat(places, 1))
				if symbolicP {
					pv.plc = 1
				}
				args = append(args, pv)
			}
			v := ev.apply(token.NoPos, fv, args)
			if v.kind == nvTuple && len(v.tuple) >= 1 {
				v = v.tuple[0]
			}
			if v.kind != nvAff {
				ev.leave(token.NoPos, "the result is not a number of the domain")
			}
			res.val = v
		}()
		res.nonDy = ev.nonDyadic
		out = append(out, res)
	}
	return out
}

// clause: lo (<|<=) g − x (<|<=) hi over the class
type nClause struct {
	text               string
	lo, hi             *big.Rat
	loClosed, hiClosed bool
	needInt            bool // the result must be integer-valued
}

type nVerdict struct {
	ok        bool
	violation string // with witness
	undecided string
}

func evalAt(v *nVal, k int64, t *big.Rat) *big.Rat {
	r := new(big.Rat).Mul(v.a, rat(k, 1))
	r.Add(r, new(big.Rat).Mul(v.b, t))
	return r.Add(r, v.c)
}

// decideClause: g against the clause relative to ref (normally x) over one class
func decideClause(rg nRegion, g, ref *nVal, cl nClause, nonDyadic bool, symbolic bool) nVerdict {
	ev := &nEval{region: rg}
	d := &nVal{kind: nvAff, a: new(big.Rat).Sub(g.a, ref.a), b: new(big.Rat).Sub(g.b, ref.b), c: new(big.Rat).Sub(g.c, ref.c)}
	inRange := func(val *big.Rat) bool {
		cl0, ch0 := val.Cmp(cl.lo), val.Cmp(cl.hi)
		return (cl0 > 0 || cl0 == 0 && cl.loClosed) && (ch0 < 0 || ch0 == 0 && cl.hiClosed)
	}
	// witness search on dyadic points
	for _, k := range rg.sampleK() {
		for _, t := range rg.sampleT() {
			dv := evalAt(d, k, t)
			gv := evalAt(g, k, t)
			bad := !inRange(dv) || cl.needInt && !gv.IsInt()
			if bad {
				x := new(big.Rat).Add(rat(k, 1), t)
				what := fmt.Sprintf("for x = %s the built-in yields %s", x.FloatString(3), gv.FloatString(3))
				if symbolic {
					what = fmt.Sprintf("for x·10^n = %s the built-in yields %s·10^-n", x.FloatString(3), gv.FloatString(3))
				}
				if nonDyadic {
					return nVerdict{undecided: "over the reals the clause fails (" + what + ") but the body uses constants that are not small dyadic numbers, so that the computed doubles are not known to follow"}
				}
				return nVerdict{violation: what + " (class: " + rg.String() + ")"}
			}
		}
	}
	// universal check
	inf, sup, infAtt, supAtt := ev.bounds(d)
	okLo := inf != nil && (inf.Cmp(cl.lo) > 0 || inf.Cmp(cl.lo) == 0 && (cl.loClosed || !infAtt))
	okHi := sup != nil && (sup.Cmp(cl.hi) < 0 || sup.Cmp(cl.hi) == 0 && (cl.hiClosed || !supAtt))
	okInt := !cl.needInt || g.b.Sign() == 0 && g.a.IsInt() && g.c.IsInt()
	if !(okLo && okHi && okInt) {
		return nVerdict{undecided: fmt.Sprintf("over the class %s the result %s is not shown to satisfy the clause for every x, and no small witness was found", rg, g)}
	}
	if g.pert != nil {
		for _, c := range []*big.Rat{rat(1, 1), rat(1, 2)} {
			if g.pert.Cmp(c) == 0 {
				wit := map[string]string{"1": "x = ±(1 − 2^-53), where x + 1 is rounded up to 2, and x = ±2^-60, where x − 1 is rounded to −1", "1/2": "x = ±0.49999999999999994, where x + 0.5 is rounded up to 1, and x = ±(0.5 − 2^-54), where −x − 0.5 is rounded to −1"}[c.RatString()]
				return nVerdict{violation: "a rounding function is applied to ±x shifted by " + c.RatString() + ", a floating-point sum that rounds: over the reals the clause holds, but there are doubles (" + wit + ") for which the sum lands on an integer from the wrong side, the rounding function is off by one and the clause fails"}
			}
		}
	}
	if g.inexact != "" {
		return nVerdict{undecided: "the clause holds over the reals, but " + g.inexact + " and the effect on the computed double is not modelled"}
	}
	return nVerdict{ok: true}
}

// numericRegistry: the numeric built-ins by registered name
func (w *World) numericRegistry(names []string) map[string]*nFuncVal {
	p := w.Pkg("")
	info := p.TypesInfo
	want := map[string]bool{}
	for _, n := range names {
		want[n] = true
	}
	out := map[string]*nFuncVal{}
	ev := &nEval{w: w}
	for _, file := range p.Syntax {
		if strings.HasSuffix(w.Fset.Position(file.Pos()).Filename, "_test.go") {
			continue
		}
		ast.Inspect(file, func(n ast.Node) bool {
			kv, ok := n.(*ast.KeyValueExpr)
			if !ok {
				return true
			}
			tv, ok := info.Types[kv.Key]
			if !ok || tv.Value == nil || tv.Value.Kind() != constant.String {
				return true
			}
			name := constant.StringVal(tv.Value)
			if !want[name] {
				return true
			}
			if fv := ev.funcValue(info, map[types.Object]*nVal{}, kv.Value); fv != nil {
				out[name] = fv
			}
			return true
		})
	}
	return out
}

func (fv *nFuncVal) describe(w *World) (string, string) {
	switch {
	case fv.decl != nil:
		return fv.decl.Name, w.Pos(fv.decl.Node().Pos())
	case fv.lit != nil:
		return "function literal", w.Pos(fv.lit.Pos())
	case fv.std != nil:
		return "math." + fv.std.Name(), "-"
	}
	return "?", "-"
}

func (fv *nFuncVal) nparams() int {
	switch {
	case fv.decl != nil:
		return fv.decl.Sig().Params().Len()
	case fv.std != nil:
		return fv.std.Type().(*types.Signature).Params().Len()
	case fv.lit != nil:
		n := 0
		for _, f := range fv.lit.Type.Params.List {
			if len(f.Names) == 0 {
				n++
			}
			n += len(f.Names)
		}
		return n
	}
	return -1
}

func checkC19Numeric(c *Ctx) {
	w := c.W
	c.rule("C19.R4", "numeric built-ins, decided for every double below 2^52 by abstract interpretation over the nine classes of x = k + t (sign of x × t ∈ {0}, (0,½), {½}, (½,1)): the body of floor/ceil/inc/dec/integer/decimal/round evaluates to an affine form a·k+b·t+c in each class, the clause is decided exactly for that form (all k, all t of the class), and every floating-point step is exact (rounding functions of ±x or of integers, sums of integers, x − I with |x − I| ≤ |x|), so that the form is the computed double; a rounding function of x ± 1 or x ± ½ is a violation (the sum rounds onto an integer from the wrong side for a named double)", 7)
	c.rule("C19.R5", "round_places(x, n) = Round(x·10^n)/10^n: interpreted with the symbol P = 10^n, the form g with result g/P satisfies |g − x·P| ≤ ½ in every class of x·P (real-number model: the rounding of x·P and of the division is inherent and not modelled), and with n = 0, where every step is exact, |result − x| ≤ ½ for the computed doubles", 2)
	one := rat(1, 1)
	zero := new(big.Rat)
	clauses := map[string]nClause{
		"floor": {text: "floor(x) <= x < floor(x)+1", lo: rat(-1, 1), hi: zero, loClosed: false, hiClosed: true},
		"ceil":  {text: "ceil(x)-1 < x <= ceil(x)", lo: zero, hi: one, loClosed: true, hiClosed: false},
		"round": {text: "round(x) is an integer within 0.5 of x", lo: rat(-1, 2), hi: rat(1, 2), loClosed: true, hiClosed: true, needInt: true},
	}
	names := []string{"floor", "ceil", "inc", "dec", "integer", "decimal", "round", "round_places"}
	reg := w.numericRegistry(names)
	for _, n := range names {
		if reg[n] == nil {
			rule := "C19.R4"
			if n == "round_places" {
				rule = "C19.R5"
			}
			c.undecided(rule, "the built-in registered under \""+n+"\" was not found (a map entry \""+n+"\": <function>)")
		}
	}
	results := map[string][]nResult{}
	for _, n := range names[:7] {
		if fv := reg[n]; fv != nil {
			if fv.decl != nil {
				c.fn(fv.decl)
			}
			if fv.nparams() != 1 {
				c.undecided("C19.R4", "the built-in \""+n+"\" does not take exactly one argument")
				continue
			}
			results[n] = w.numInterpret(fv, 1, false, 0)
		}
	}
	x := &nVal{kind: nvAff, a: rat(1, 1), b: rat(1, 1), c: new(big.Rat)}
	report := func(rule, name, clauseText string, fv *nFuncVal, verdicts []nVerdict, regs []nRegion) {
		fname, pos := fv.describe(w)
		key := fname + "/" + name + ": " + clauseText
		var viol, und []string
		for i, v := range verdicts {
			if v.violation != "" {
				viol = append(viol, v.violation)
			} else if v.undecided != "" {
				und = append(und, regs[i].String()+": "+v.undecided)
			}
		}
		sort.Strings(viol)
		switch {
		case len(viol) > 0:
			c.ob(rule, key, pos, false, name+"() breaks \""+clauseText+"\": "+viol[0])
		case len(und) > 0:
			c.undecided(rule, name+"() ("+pos+"), clause \""+clauseText+"\": "+und[0])
		default:
			how := "holds in each of the nine classes, every step exact in binary64"
			if strings.Contains(clauseText, "real-number model") {
				how = "holds in each of the nine classes of x·10^n for n = 0..8, over the reals (the rounding of x·10^n and of the division is not modelled)"
			}
			c.ob(rule, key, pos, true, how)
		}
	}
	verdictsFor := func(rs []nResult, f func(r nResult) nVerdict) ([]nVerdict, []nRegion) {
		var vs []nVerdict
		var rgs []nRegion
		for _, r := range rs {
			rgs = append(rgs, r.region)
			if r.val == nil {
				at := ""
				if r.leftAt.IsValid() {
					at = " at " + w.Pos(r.leftAt)
				}
				vs = append(vs, nVerdict{undecided: "the body leaves the interpreted fragment" + at + ": " + r.left})
				continue
			}
			vs = append(vs, f(r))
		}
		return vs, rgs
	}
	// target forms per class
	target := func(name string, rg nRegion) *nVal {
		k := func(c int64) *nVal { return &nVal{kind: nvAff, a: rat(1, 1), b: new(big.Rat), c: rat(c, 1)} }
		switch name {
		case "inc":
			return k(1)
		case "dec":
			if rg.tc == 0 {
				return k(-1)
			}
			return k(0)
		case "integer":
			if rg.ks < 0 && rg.tc != 0 {
				return k(1)
			}
			return k(0)
		}
		return nil
	}
	eq := nClause{lo: zero, hi: zero, loClosed: true, hiClosed: true}
	for _, n := range []string{"floor", "ceil", "round"} {
		if rs := results[n]; rs != nil {
			cl := clauses[n]
			vs, rgs := verdictsFor(rs, func(r nResult) nVerdict { return decideClause(r.region, r.val, x, cl, r.nonDy, false) })
			report("C19.R4", n, cl.text, reg[n], vs, rgs)
		}
	}
	texts := map[string]string{"inc": "inc(x) is the least integer greater than x", "dec": "dec(x) is the greatest integer less than x", "integer": "integer(x) truncates toward zero"}
	for _, n := range []string{"inc", "dec", "integer"} {
		if rs := results[n]; rs != nil {
			vs, rgs := verdictsFor(rs, func(r nResult) nVerdict {
				return decideClause(r.region, r.val, target(n, r.region), eq, r.nonDy, false)
			})
			report("C19.R4", n, texts[n], reg[n], vs, rgs)
		}
	}
	if ri, rd := results["integer"], results["decimal"]; ri != nil && rd != nil {
		var vs []nVerdict
		var rgs []nRegion
		for i := range ri {
			rgs = append(rgs, ri[i].region)
			switch {
			case ri[i].val == nil:
				vs = append(vs, nVerdict{undecided: "integer() leaves the interpreted fragment: " + ri[i].left})
			case rd[i].val == nil:
				at := ""
				if rd[i].leftAt.IsValid() {
					at = " at " + w.Pos(rd[i].leftAt)
				}
				vs = append(vs, nVerdict{undecided: "decimal() leaves the interpreted fragment" + at + ": " + rd[i].left})
			default:
				ev := &nEval{w: w, region: ri[i].region}
				var sum *nVal
				func() {
					defer func() {
						if r := recover(); r != nil {
							if _, ok := r.(nLeave); !ok {
								panic(r)
							}
						}
					}()
					sum = ev.add(token.NoPos, ri[i].val, rd[i].val, false)
				}()
				if sum == nil {
					vs = append(vs, nVerdict{undecided: "integer(x) + decimal(x) is outside the domain"})
					continue
				}
				// the sum I + (x − I) is x itself, a double: exact
				if ri[i].val.inexact == "" && rd[i].val.inexact == "" && sum.a.Cmp(x.a) == 0 && sum.b.Cmp(x.b) == 0 && sum.c.Sign() == 0 {
					sum.inexact, sum.pert = "", nil
				}
				vs = append(vs, decideClause(ri[i].region, sum, x, eq, ri[i].nonDy || rd[i].nonDy, false))
			}
		}
		report("C19.R4", "decimal", "integer(x) + decimal(x) = x", reg["decimal"], vs, rgs)
	}
	// round_places
	if fv := reg["round_places"]; fv != nil {
		if fv.decl != nil {
			c.fn(fv.decl)
		}
		if fv.nparams() != 2 {
			c.undecided("C19.R5", "the built-in \"round_places\" does not take exactly two arguments")
			return
		}
		half := nClause{lo: rat(-1, 2), hi: rat(1, 2), loClosed: true, hiClosed: true}
		zeroRun := w.numInterpret(fv, 2, false, 0)
		vs0, rgs := verdictsFor(zeroRun, func(r nResult) nVerdict { return decideClause(r.region, r.val, x, half, r.nonDy, false) })
		var symRun []nResult
		for n := int64(0); n <= 8; n++ { // the property's range of n; the power of ten of the parameter is the symbol P in each run
			symRun = append(symRun, w.numInterpret(fv, 2, true, n)...)
		}
		vsS, rgsS := verdictsFor(symRun, func(r nResult) nVerdict {
			if r.val.scale != -1 {
				return nVerdict{undecided: fmt.Sprintf("the result carries 10^(%d·n) instead of 10^-n", r.val.scale)}
			}
			g := *r.val
			g.scale = 0
			g.inexact, g.pert = "", nil // real-number model
			return decideClause(r.region, &g, x, half, r.nonDy, true)
		})
		// a violation with n = 0 is a violation of the computed doubles; it takes precedence
		report("C19.R5", "round_places", "round_places(x,0) is within 0.5 of x (n = 0, computed doubles)", fv, vs0, rgs)
		anyViol0 := false
		for _, v := range vs0 {
			if v.violation != "" {
				anyViol0 = true
			}
		}
		if !anyViol0 {
			report("C19.R5", "round_places", "round_places(x,n) is within half a unit of the n-th decimal place (real-number model, n = 0..8)", fv, vsS, rgsS)
		}
	}
	_ = strings.TrimSpace
}
