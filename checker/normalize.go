package main

// normalize.go — NORM: helper-inlining normalisation.
//
// The rules of this checker were confirmed, construct by construct, against the decomposition into functions that the
// reviewed tree has (tables/functions.json). A later change that merely moves statements into a new helper function
// ("extract function/method", closure -> named function, method value instead of a literal) leaves the behaviour — and
// therefore every property — untouched, but it would hide the moved statements from rules that follow one function's
// paths. Before any rule runs, every call to a function that the reviewed tree does not have is therefore replaced by
// the callee's body (a semantics-preserving source-to-source inlining, done on the type-checked syntax trees of the
// current working tree and re-type-checked afterwards); the rules then see the statements in the context in which they
// execute. A call that cannot be inlined soundly (recursion, defer, labels, unsupported call context, name capture) is
// left alone: the rules then see the helper as an opaque call, which can only make them fail, never pass wrongly.
// On a tree whose functions are all in the table the pass is the identity.

import (
	"bytes"
	"encoding/json"
	"fmt"
	"go/ast"
	"go/parser"
	"go/printer"
	"go/token"
	"go/types"
	"os"
	"path/filepath"
	"sort"
	"strconv"
	"strings"

	"golang.org/x/tools/go/packages"
)

type fnEntry struct {
	Pkg  string `json:"pkg"`
	Recv string `json:"recv,omitempty"`
	Name string `json:"name"`
	Sig  string `json:"sig"`
}

func (e fnEntry) key() string { return e.Pkg + "|" + e.Recv + "|" + e.Name }

func recvTypeName(fd *ast.FuncDecl) string {
	if fd.Recv == nil || len(fd.Recv.List) != 1 {
		return ""
	}
	t := fd.Recv.List[0].Type
	if s, ok := t.(*ast.StarExpr); ok {
		t = s.X
	}
	if ix, ok := t.(*ast.IndexExpr); ok {
		t = ix.X
	}
	if ix, ok := t.(*ast.IndexListExpr); ok {
		t = ix.X
	}
	if id, ok := t.(*ast.Ident); ok {
		return id.Name
	}
	return "?"
}

func sigString(sig *types.Signature) string {
	s := types.NewSignatureType(nil, nil, nil, sig.Params(), sig.Results(), sig.Variadic())
	// parameter names are not part of the identity
	var b strings.Builder
	b.WriteString("(")
	for i := 0; i < s.Params().Len(); i++ {
		if i > 0 {
			b.WriteString(", ")
		}
		if s.Variadic() && i == s.Params().Len()-1 {
			b.WriteString("...")
		}
		b.WriteString(typeStr(s.Params().At(i).Type()))
	}
	b.WriteString(") (")
	for i := 0; i < s.Results().Len(); i++ {
		if i > 0 {
			b.WriteString(", ")
		}
		b.WriteString(typeStr(s.Results().At(i).Type()))
	}
	b.WriteString(")")
	return b.String()
}

func (w *World) funcEntries() []fnEntry {
	var out []fnEntry
	for _, f := range w.Funcs {
		if f.Decl == nil || f.Obj == nil {
			continue
		}
		out = append(out, fnEntry{Pkg: shortPkg(f.Pkg.PkgPath), Recv: recvTypeName(f.Decl), Name: f.Decl.Name.Name, Sig: sigString(f.Sig())})
	}
	sort.Slice(out, func(i, j int) bool { return out[i].key() < out[j].key() })
	return out
}

func funcBaselinePath(verif string) string { return filepath.Join(verif, "tables", "functions.json") }

func loadFuncBaseline(verif string) ([]fnEntry, error) {
	b, err := os.ReadFile(funcBaselinePath(verif))
	if err != nil {
		return nil, err
	}
	var out []fnEntry
	if err := json.Unmarshal(b, &out); err != nil {
		return nil, err
	}
	return out, nil
}

func writeFuncBaseline(w *World, verif string) error {
	var b bytes.Buffer
	b.WriteString("[\n")
	es := w.funcEntries()
	for i, e := range es {
		j, _ := json.Marshal(e)
		b.WriteString("  " + string(j))
		if i < len(es)-1 {
			b.WriteString(",")
		}
		b.WriteString("\n")
	}
	b.WriteString("]\n")
	return os.WriteFile(funcBaselinePath(verif), b.Bytes(), 0o644)
}

// newFunctions: declared functions of the current tree that the reviewed tree does not have (by package, receiver type
// and name), excluding renames (same package, receiver and signature as a reviewed function that no longer exists).
func (w *World) newFunctions(base []fnEntry) map[*types.Func]*Func {
	baseKeys := map[string]bool{}
	for _, b := range base {
		baseKeys[b.key()] = true
	}
	present := map[string]bool{}
	for _, e := range w.funcEntries() {
		present[e.key()] = true
	}
	out := map[*types.Func]*Func{}
	for _, f := range w.Funcs {
		if f.Decl == nil || f.Obj == nil || f.Body == nil {
			continue
		}
		if strings.HasSuffix(f.Pkg.PkgPath, "/internal/testutils") || strings.HasPrefix(filepath.Base(w.Fset.File(f.Decl.Pos()).Name()), "yarnspinner") {
			continue // test helpers; generated recognisers
		}
		e := fnEntry{Pkg: shortPkg(f.Pkg.PkgPath), Recv: recvTypeName(f.Decl), Name: f.Decl.Name.Name, Sig: sigString(f.Sig())}
		if baseKeys[e.key()] || e.Name == "init" || e.Name == "main" {
			continue
		}
		renamed := false
		for _, b := range base {
			if b.Pkg == e.Pkg && b.Recv == e.Recv && b.Sig == e.Sig && !present[b.key()] {
				renamed = true
			}
		}
		if renamed {
			continue
		}
		out[f.Obj] = f
	}
	return out
}

// ---------------------------------------------------------------------------------------------------------------------

type normLog struct {
	Inlined   []string `json:"inlined_calls"`
	Skipped   []string `json:"calls_left_alone"`
	Removed   []string `json:"helper_declarations_removed"`
	NewFuncs  []string `json:"functions_not_in_reviewed_table"`
	Rounds    int      `json:"rounds"`
	Error     string   `json:"error,omitempty"`
	FilesDiff []string `json:"files_rewritten"`
}

type origPos struct {
	File string
	Line int
}

// normalizeWorld returns the world the rules run on: w itself when nothing is to be inlined, else a reloaded world whose
// overlay holds the rewritten files. A rewritten file that does not type-check is a defect of this pass, not of the
// repository: the pass then gives up (log.Error) and the rules run on the original world.
func normalizeWorld(w *World, verif string) (*World, *normLog) {
	lg := &normLog{}
	base, err := loadFuncBaseline(verif)
	if err != nil {
		lg.Error = "no reviewed function table: " + err.Error()
		return w, lg
	}
	cur := w
	overlay := map[string][]byte{}
	for k, v := range w.overlay {
		overlay[k] = v
	}
	lineMaps := map[string][]origPos{}
	for round := 1; round <= 8; round++ {
		nf := cur.newFunctions(base)
		if round == 1 {
			for _, f := range nf {
				lg.NewFuncs = append(lg.NewFuncs, f.Name)
			}
			sort.Strings(lg.NewFuncs)
		}
		if len(nf) == 0 && round == 1 && !hasLocalClosure(cur) {
			break // every function is in the reviewed table and no closure is bound to a local: the pass is the identity
		}
		// later rounds also run without new functions: substitutions of earlier rounds can leave function literals that
		// are called where they are written, which only a re-type-checked tree lets the pass reduce
		n := &normalizer{w: cur, newFns: nf, lg: lg, lineMaps: lineMaps}
		files := n.run()
		if len(files) == 0 {
			break
		}
		lg.Rounds = round
		for path, content := range files {
			overlay[path] = content.text
			lineMaps[path] = content.lines
		}
		next, err := loadWorld(w.Repo, overlay, false)
		if err != nil {
			lg.Error = fmt.Sprintf("round %d: the rewritten tree does not load: %v", round, err)
			if os.Getenv("YSGOCHECK_NORM_DEBUG") != "" {
				for path, content := range files {
					fmt.Fprintf(os.Stderr, "---- %s\n%s\n", path, content.text)
				}
			}
			// the syntax trees of w were rewritten in place: hand back a fresh load of the working tree
			if fresh, ferr := loadWorld(w.Repo, w.overlay, false); ferr == nil {
				fresh.norm = lg
				return fresh, lg
			}
			return w, lg
		}
		next.lineMaps = lineMaps
		next.norm = lg
		cur = next
	}
	for path := range lineMaps {
		lg.FilesDiff = append(lg.FilesDiff, relTo(w.Repo, path))
	}
	sort.Strings(lg.FilesDiff)
	cur.norm = lg
	return cur, lg
}

type normFile struct {
	text  []byte
	lines []origPos
}

type normalizer struct {
	pkgVarW  map[*types.Var]bool // package-level variables that some statement writes (lazily computed)
	w        *World
	newFns   map[*types.Func]*Func
	lg       *normLog
	lineMaps map[string][]origPos
	tmpN     int
	changed  map[*ast.File]bool
	// per enclosing declaration: every identifier name occurring in it (collision avoidance)
	namesIn map[*ast.FuncDecl]map[string]bool
	cyclic  map[*types.Func]bool
	back    map[ast.Node]ast.Node // clone -> original node (type information is keyed by the originals)
}

// funcUse resolves an identifier (original or clone) to the function it denotes.
func (n *normalizer) funcUse(info *types.Info, id *ast.Ident) *types.Func {
	if o, ok := n.back[id]; ok {
		id, _ = o.(*ast.Ident)
		if id == nil {
			return nil
		}
	}
	fn, _ := info.Uses[id].(*types.Func)
	return originFunc(fn)
}

func (n *normalizer) run() map[string]normFile {
	n.changed = map[*ast.File]bool{}
	n.namesIn = map[*ast.FuncDecl]map[string]bool{}
	n.back = map[ast.Node]ast.Node{}
	n.findCycles()
	// analyses that the rewriting consults (field-write summaries on SSA, per-function assignment tables) are built now,
	// on the untouched trees: once statements have been moved, cloned nodes carry no type information
	if len(n.newFns) > 0 {
		n.w.SSA()
		for _, f := range n.newFns {
			n.w.ent(f)
		}
	}
	progress := false
	for _, pkg := range n.w.Pkgs {
		for _, file := range pkg.Syntax {
			fname := n.w.Fset.Position(file.Pos()).Filename
			if strings.HasSuffix(fname, "_test.go") {
				continue
			}
			for _, d := range file.Decls {
				if gd, ok := d.(*ast.GenDecl); ok && gd.Tok == token.VAR {
					if n.rewriteVarDecl(pkg, file, gd) {
						n.changed[file] = true
						progress = true
					}
					continue
				}
				fd, ok := d.(*ast.FuncDecl)
				if !ok || fd.Body == nil {
					continue
				}
				if n.rewriteFunc(pkg, file, fd) {
					n.changed[file] = true
					progress = true
				}
			}
		}
	}
	// remove unexported helpers no longer referenced anywhere (clones are resolved through the back map)
	refs := map[*types.Func]int{}
	ifaceNames := map[string]bool{}
	for _, pkg := range n.w.Pkgs {
		for _, obj := range pkg.TypesInfo.Defs {
			if tn, ok := obj.(*types.TypeName); ok {
				if it, ok := tn.Type().Underlying().(*types.Interface); ok {
					for i := 0; i < it.NumMethods(); i++ {
						ifaceNames[it.Method(i).Name()] = true
					}
				}
			}
		}
		for _, file := range pkg.Syntax {
			ast.Inspect(file, func(nd ast.Node) bool {
				if id, ok := nd.(*ast.Ident); ok {
					if fn := n.funcUse(pkg.TypesInfo, id); fn != nil && n.newFns[fn] != nil {
						refs[fn]++
					}
				}
				return true
			})
		}
	}
	for obj, f := range n.newFns {
		if refs[obj] != 0 || ast.IsExported(f.Decl.Name.Name) {
			continue
		}
		if f.Decl.Recv != nil && ifaceNames[f.Decl.Name.Name] {
			// a method whose name some interface declares stays only if its receiver type (or a pointer to it) implements
			// a module interface that declares it: otherwise no dynamic call can reach it
			needed := false
			if sig := f.Sig(); sig != nil && sig.Recv() != nil {
				rt := sig.Recv().Type()
				base := rt
				if p, ok := rt.(*types.Pointer); ok {
					base = p.Elem()
				}
				for _, pkg := range n.w.Pkgs {
					for _, o := range pkg.TypesInfo.Defs {
						tn, ok := o.(*types.TypeName)
						if !ok {
							continue
						}
						it, ok := tn.Type().Underlying().(*types.Interface)
						if !ok || it.NumMethods() == 0 {
							continue
						}
						declares := false
						for i := 0; i < it.NumMethods(); i++ {
							if it.Method(i).Name() == f.Decl.Name.Name {
								declares = true
							}
						}
						if declares && (types.Implements(base, it) || types.Implements(types.NewPointer(base), it)) {
							needed = true
						}
					}
				}
			}
			if needed {
				continue
			}
		}
		file := n.fileOf(f)
		if file == nil {
			continue
		}
		for i, d := range file.Decls {
			if d == ast.Decl(f.Decl) {
				file.Decls = append(file.Decls[:i:i], file.Decls[i+1:]...)
				n.changed[file] = true
				n.lg.Removed = append(n.lg.Removed, f.Name)
				progress = true
				break
			}
		}
	}
	if !progress {
		return nil
	}
	out := map[string]normFile{}
	for _, pkg := range n.w.Pkgs {
		for _, file := range pkg.Syntax {
			if !n.changed[file] {
				continue
			}
			pruneUnusedImports(pkg.TypesInfo, file)
			path := n.w.Fset.File(file.Pos()).Name()
			text, lines, err := n.printFile(pkg, file, path)
			if err != nil {
				n.lg.Error = "printing " + path + ": " + err.Error()
				return nil
			}
			out[path] = normFile{text: text, lines: lines}
		}
	}
	return out
}

// pruneUnusedImports drops the imports that no qualified identifier of the rewritten file mentions any more (a helper that was
// the only user of a package has been inlined away or removed): the rewritten tree must still compile.
func pruneUnusedImports(info *types.Info, file *ast.File) {
	used := map[string]bool{}
	ast.Inspect(file, func(n ast.Node) bool {
		if se, ok := n.(*ast.SelectorExpr); ok {
			if id, ok := se.X.(*ast.Ident); ok {
				used[id.Name] = true
			}
		}
		return true
	})
	nameOf := func(spec *ast.ImportSpec) string {
		if spec.Name != nil {
			return spec.Name.Name
		}
		if pn, ok := info.Implicits[spec].(*types.PkgName); ok {
			return pn.Name()
		}
		p := strings.Trim(spec.Path.Value, "\"")
		if i := strings.LastIndex(p, "/"); i >= 0 {
			p = p[i+1:]
		}
		return p
	}
	drop := map[*ast.ImportSpec]bool{}
	for _, d := range file.Decls {
		gd, ok := d.(*ast.GenDecl)
		if !ok || gd.Tok != token.IMPORT {
			continue
		}
		var keep []ast.Spec
		for _, sp := range gd.Specs {
			is := sp.(*ast.ImportSpec)
			nm := nameOf(is)
			if nm != "_" && nm != "." && !used[nm] {
				drop[is] = true
				continue
			}
			keep = append(keep, sp)
		}
		gd.Specs = keep
	}
	if len(drop) == 0 {
		return
	}
	var imps []*ast.ImportSpec
	for _, is := range file.Imports {
		if !drop[is] {
			imps = append(imps, is)
		}
	}
	file.Imports = imps
	// an import declaration left empty is removed
	var decls []ast.Decl
	for _, d := range file.Decls {
		if gd, ok := d.(*ast.GenDecl); ok && gd.Tok == token.IMPORT && len(gd.Specs) == 0 {
			continue
		}
		decls = append(decls, d)
	}
	file.Decls = decls
}

func originFunc(f *types.Func) *types.Func {
	if f == nil {
		return nil
	}
	return f.Origin()
}

func (n *normalizer) fileOf(f *Func) *ast.File {
	for _, file := range f.Pkg.Syntax {
		for _, d := range file.Decls {
			if d == ast.Decl(f.Decl) {
				return file
			}
		}
	}
	return nil
}

func (n *normalizer) findCycles() {
	n.cyclic = map[*types.Func]bool{}
	calls := map[*types.Func][]*types.Func{}
	for obj, f := range n.newFns {
		info := f.Pkg.TypesInfo
		ast.Inspect(f.Body, func(nd ast.Node) bool {
			if id, ok := nd.(*ast.Ident); ok {
				if fn, ok := info.Uses[id].(*types.Func); ok && n.newFns[originFunc(fn)] != nil {
					calls[obj] = append(calls[obj], originFunc(fn))
				}
			}
			return true
		})
	}
	for obj := range n.newFns {
		seen := map[*types.Func]bool{}
		var dfs func(x *types.Func) bool
		dfs = func(x *types.Func) bool {
			for _, y := range calls[x] {
				if y == obj {
					return true
				}
				if !seen[y] {
					seen[y] = true
					if dfs(y) {
						return true
					}
				}
			}
			return false
		}
		if dfs(obj) {
			n.cyclic[obj] = true
		}
	}
}

// ---------------------------------------------------------------------------------------------------------------------
// printing and position mapping

func (n *normalizer) printFile(pkg *packages.Package, file *ast.File, path string) ([]byte, []origPos, error) {
	// comments cannot be carried through statement moves reliably: keep only what precedes the package clause
	var keep []*ast.CommentGroup
	for _, cg := range file.Comments {
		if cg.End() < file.Package {
			keep = append(keep, cg)
		}
	}
	file.Comments = keep
	var buf bytes.Buffer
	cfg := printer.Config{Mode: printer.UseSpaces | printer.TabIndent | printer.SourcePos, Tabwidth: 8}
	if err := cfg.Fprint(&buf, n.w.Fset, file); err != nil {
		return nil, nil, err
	}
	// a file rewritten in an earlier round carries positions of the previous text: chain the maps
	prev := n.lineMaps[path]
	var out bytes.Buffer
	var lines []origPos
	curFile, curLine := path, 1
	for _, line := range strings.SplitAfter(buf.String(), "\n") {
		trim := strings.TrimSpace(line)
		if strings.HasPrefix(trim, "//line ") {
			spec := strings.TrimPrefix(trim, "//line ")
			if i := strings.LastIndex(spec, ":"); i > 0 {
				if l, err := strconv.Atoi(spec[i+1:]); err == nil {
					curFile, curLine = spec[:i], l
					continue
				}
			}
		}
		if line == "" {
			continue
		}
		op := origPos{File: curFile, Line: curLine}
		if pm, ok := n.lineMaps[curFile]; ok && prev != nil || ok {
			if curLine-1 < len(pm) && curLine >= 1 {
				op = pm[curLine-1]
			}
		}
		lines = append(lines, op)
		out.WriteString(line)
		curLine++
	}
	// sanity: must parse
	if _, err := parser.ParseFile(token.NewFileSet(), path, out.Bytes(), 0); err != nil {
		return nil, nil, fmt.Errorf("rewritten file does not parse: %v", err)
	}
	return out.Bytes(), lines, nil
}

// hasLocalClosure: some function of the module binds a function literal to a local with := (a local helper; the
// reviewed tree has none).
func hasLocalClosure(w *World) bool {
	found := false
	for _, pkg := range w.Pkgs {
		if !strings.HasPrefix(pkg.PkgPath, modPath) || strings.HasSuffix(pkg.PkgPath, "/internal/testutils") {
			continue
		}
		for _, file := range pkg.Syntax {
			if strings.HasPrefix(filepath.Base(w.Fset.File(file.Pos()).Name()), "yarnspinner") {
				continue
			}
			ast.Inspect(file, func(n ast.Node) bool {
				if as, ok := n.(*ast.AssignStmt); ok && as.Tok == token.DEFINE && len(as.Lhs) == 1 && len(as.Rhs) == 1 {
					if _, ok := as.Rhs[0].(*ast.FuncLit); ok {
						found = true
					}
				}
				return !found
			})
		}
	}
	return found
}
