package main

// c15alias.go — C15.R6: the attribute list handed out in a ParseResult does not share its backing array with the parser.
// A backward origin analysis on SSA follows the value stored into ParseResult.Attributes through slices, appends (which may
// reuse the array of their first argument), phis, local cells, results of module functions (per result index, arguments
// substituted for parameters) and slices.Grow; an origin that is a load of a field of the parser means that a later parse
// on the same parser overwrites a result handed out earlier (the runner parses all options of a choice on one parser).

import (
	"go/token"
	"go/types"
	"sort"
	"strings"

	"golang.org/x/tools/go/ssa"
)

type originSet map[string]token.Pos

func (w *World) sliceOrigins(v ssa.Value, params map[*ssa.Parameter]originSet, out originSet, seen map[ssa.Value]bool, depth int) {
	if v == nil || seen[v] || depth > 40 {
		return
	}
	seen[v] = true
	switch x := v.(type) {
	case *ssa.MakeSlice:
		out["fresh"] = x.Pos()
	case *ssa.Const:
		out["fresh"] = token.NoPos
	case *ssa.Alloc:
		out["fresh"] = x.Pos()
	case *ssa.Slice:
		w.sliceOrigins(x.X, params, out, seen, depth+1)
	case *ssa.ChangeType:
		w.sliceOrigins(x.X, params, out, seen, depth+1)
	case *ssa.Convert:
		w.sliceOrigins(x.X, params, out, seen, depth+1)
	case *ssa.Phi:
		for _, e := range x.Edges {
			w.sliceOrigins(e, params, out, seen, depth+1)
		}
	case *ssa.Parameter:
		if ps, ok := params[x]; ok {
			for k, p := range ps {
				out[k] = p
			}
		} else {
			out["parameter "+x.Name()] = x.Pos()
		}
	case *ssa.UnOp:
		if x.Op != token.MUL {
			out["unknown"] = x.Pos()
			return
		}
		switch a := x.X.(type) {
		case *ssa.FieldAddr:
			st := a.X.Type()
			if p, ok := st.Underlying().(*types.Pointer); ok {
				st = p.Elem()
			}
			fld := st.Underlying().(*types.Struct).Field(a.Field)
			out["field "+typeStr(st)+"."+fld.Name()] = x.Pos()
		case *ssa.Alloc:
			// a local cell: everything stored into it
			found := false
			if a.Parent() != nil {
				for _, b := range a.Parent().Blocks {
					for _, in := range b.Instrs {
						if s, ok := in.(*ssa.Store); ok && s.Addr == ssa.Value(a) {
							found = true
							w.sliceOrigins(s.Val, params, out, seen, depth+1)
						}
					}
				}
				for _, an := range a.Parent().AnonFuncs {
					for _, b := range an.Blocks {
						for _, in := range b.Instrs {
							if s, ok := in.(*ssa.Store); ok {
								if fv, ok := s.Addr.(*ssa.FreeVar); ok && fv.Name() == a.Comment {
									found = true
									w.sliceOrigins(s.Val, params, out, seen, depth+1)
								}
							}
						}
					}
				}
			}
			if !found {
				out["fresh"] = a.Pos()
			}
		case *ssa.FreeVar:
			out["captured "+a.Name()] = x.Pos()
		case *ssa.Global:
			out["package-level "+a.Name()] = x.Pos()
		default:
			out["unknown"] = x.Pos()
		}
	case *ssa.Extract:
		if call, ok := x.Tuple.(*ssa.Call); ok {
			w.callOrigins(call, x.Index, params, out, seen, depth+1)
		} else {
			out["unknown"] = x.Pos()
		}
	case *ssa.Call:
		w.callOrigins(x, 0, params, out, seen, depth+1)
	default:
		out["unknown"] = v.Pos()
	}
}

func (w *World) callOrigins(call *ssa.Call, idx int, params map[*ssa.Parameter]originSet, out originSet, seen map[ssa.Value]bool, depth int) {
	cc := call.Common()
	if b, ok := cc.Value.(*ssa.Builtin); ok {
		if b.Name() == "append" && len(cc.Args) > 0 {
			w.sliceOrigins(cc.Args[0], params, out, seen, depth+1) // may reuse the array of its first argument
			return
		}
		out["unknown"] = call.Pos()
		return
	}
	callee := cc.StaticCallee()
	if callee == nil {
		out["unknown"] = call.Pos()
		return
	}
	name := callee.Name()
	pkg := ""
	gen := callee
	if callee.Origin() != nil {
		gen = callee.Origin() // instantiations of generic functions carry the type arguments in their name
	}
	if obj := gen.Object(); obj != nil && obj.Pkg() != nil {
		pkg, name = obj.Pkg().Path(), obj.Name()
	}
	if pkg == "slices" {
		switch name {
		case "Grow", "Clip", "Compact", "CompactFunc", "Delete", "DeleteFunc", "Insert", "Replace":
			if len(cc.Args) > 0 {
				w.sliceOrigins(cc.Args[0], params, out, seen, depth+1)
			}
			if name == "Grow" || name == "Insert" || name == "Replace" {
				out["fresh"] = call.Pos()
			}
			return
		case "Clone", "Concat", "Collect", "Sorted", "AppendSeq":
			out["fresh"] = call.Pos()
			return
		}
	}
	if callee.Blocks == nil || !strings.HasPrefix(ssaFuncPkgPath(callee), modPath) {
		out["unknown"] = call.Pos()
		return
	}
	// the callee's returned value at idx, with the arguments substituted for its parameters
	sub := map[*ssa.Parameter]originSet{}
	for i, p := range callee.Params {
		if i < len(cc.Args) {
			os := originSet{}
			w.sliceOrigins(cc.Args[i], params, os, map[ssa.Value]bool{}, depth+1)
			sub[p] = os
		}
	}
	for _, b := range callee.Blocks {
		for _, in := range b.Instrs {
			if r, ok := in.(*ssa.Return); ok && idx < len(r.Results) {
				w.sliceOrigins(r.Results[idx], sub, out, map[ssa.Value]bool{}, depth+1)
			}
		}
	}
}

func c15ResultAliasing(c *Ctx) {
	w := c.W
	c.rule("C15.R6", "results do not alias the parser: the value stored into ParseResult.Attributes never originates (through slices, appends, phis, local cells, results of module functions, slices.Grow) in a field of the line parser — a later parse on the same parser would overwrite a result handed out earlier", 1)
	mp := w.Pkg("markup")
	w.SSA()
	n := 0
	for _, f := range w.ModuleSSAFuncs() {
		if ssaFuncPkgPath(f) != mp.PkgPath {
			continue
		}
		for _, b := range f.Blocks {
			for _, in := range b.Instrs {
				st, ok := in.(*ssa.Store)
				if !ok {
					continue
				}
				fa, ok := st.Addr.(*ssa.FieldAddr)
				if !ok {
					continue
				}
				t := fa.X.Type()
				if p, ok := t.Underlying().(*types.Pointer); ok {
					t = p.Elem()
				}
				if typeStr(t) != "markup.ParseResult" {
					continue
				}
				fld := t.Underlying().(*types.Struct).Field(fa.Field)
				if _, isSlice := fld.Type().Underlying().(*types.Slice); !isSlice {
					continue
				}
				n++
				os := originSet{}
				w.sliceOrigins(st.Val, map[*ssa.Parameter]originSet{}, os, map[ssa.Value]bool{}, 0)
				var keys, bad []string
				for k := range os {
					keys = append(keys, k)
					if strings.HasPrefix(k, "field markup.LineParser.") || strings.HasPrefix(k, "package-level ") {
						bad = append(bad, k)
					}
				}
				sort.Strings(keys)
				sort.Strings(bad)
				c.Funcs[ssaFuncName(f)] = true
				key := ssaFuncName(f) + "/" + fld.Name() + "#" + itoa(n)
				if len(bad) > 0 {
					c.ob("C15.R6", key, w.Pos(st.Pos()), false, "the "+fld.Name()+" of a result can share its backing array with "+strings.Join(bad, ", ")+" (loaded at "+w.Pos(os[bad[0]])+"): the next parse on the same parser overwrites the result handed out by this one")
				} else {
					c.ob("C15.R6", key, w.Pos(st.Pos()), true, "origins of the stored list: "+strings.Join(keys, ", "))
				}
			}
		}
	}
	if n == 0 {
		c.undecided("C15.R6", "no store into a slice field of ParseResult found in package markup")
	}
}
