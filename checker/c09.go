package main

// c09.go — C09: same script, seed and choices give the same run; random built-ins stay in range.

import (
	"go/ast"
	"go/constant"
	"go/token"
	"go/types"
	"sort"
	"strings"

	"golang.org/x/tools/go/ssa"
)

func init() {
	registry["C09"] = &propCheck{
		meta: propMeta{
			Level: "other",
			Explanation: "Decides: (R1) in every module function reachable from the public API, each call to a nondeterminism source (global math/rand, time.Now, crypto/rand, process/environment queries) is entailed by `the seed string is empty`; " +
				"(R2) the random source of a runner is rand.New(rand.NewSource(v)) with v depending on the seed parameter, it lives only in the RNG's field, and the functions registered as dice/random/random_range are built from the RNG the constructor made from its seed argument; " +
				"(R3) every range over a map in the module only performs stores keyed by the loop key (nothing is appended, concatenated, rendered, or returned in iteration order); " +
				"(R4) the integer draw is lower + Intn(upper-lower+1) as affine forms (hence in [lower, upper] by A4), dice draws from [1, sides], random returns Float64() unchanged.",
			NotDecided:  "equality of runs across processes beyond the absence of the listed sources; properties of math/rand's generator",
			Assumptions: []string{"A4 ((*rand.Rand).Intn(n) in [0,n), Float64() in [0,1), same seed => same sequence)"},
			Trusted:     []string{"go/types", "golang.org/x/tools/go/ssa", "go/packages loader"},
		},
		run: checkC09,
	}
}

// apiRoots: exported functions and methods of the non-internal packages.
func (w *World) apiRoots() []*ssa.Function {
	prog := w.SSA()
	var roots []*ssa.Function
	for _, p := range w.Pkgs {
		if strings.Contains(p.PkgPath, "/internal/") {
			continue
		}
		sp := prog.Package(p.Types)
		if sp == nil {
			continue
		}
		for _, mem := range sp.Members {
			switch x := mem.(type) {
			case *ssa.Function:
				if x.Object() != nil && x.Object().Exported() {
					roots = append(roots, x)
				}
			case *ssa.Type:
				if !x.Object().Exported() {
					continue
				}
				for _, t := range []types.Type{x.Type(), types.NewPointer(x.Type())} {
					ms := prog.MethodSets.MethodSet(t)
					for i := 0; i < ms.Len(); i++ {
						if ms.At(i).Obj().Exported() {
							if f := prog.MethodValue(ms.At(i)); f != nil {
								roots = append(roots, f)
							}
						}
					}
				}
			}
		}
	}
	sort.Slice(roots, func(i, j int) bool { return roots[i].String() < roots[j].String() })
	return roots
}

func nondetSource(callee *ssa.Function) string {
	if callee == nil || callee.Pkg == nil {
		return ""
	}
	pkg := callee.Pkg.Pkg.Path()
	name := callee.Name()
	isMethod := callee.Signature.Recv() != nil
	if name == "init" || strings.HasPrefix(name, "init#") {
		return "" // a dependency's package initialiser, called from ours
	}
	switch pkg {
	case "math/rand", "math/rand/v2":
		if !isMethod && name != "New" && name != "NewSource" && name != "NewZipf" && name != "NewPCG" && name != "NewChaCha8" {
			return "global " + pkg + "." + name
		}
	case "crypto/rand":
		return "crypto/rand." + name
	case "hash/maphash":
		// seeds made by MakeSeed (and the implicit seed of a Hash that was given none) are random per process by design
		return "hash/maphash." + name + " (per-process random seed)"
	case "time":
		switch name {
		case "Now", "Since", "Until":
			if !isMethod {
				return "time." + name
			}
		}
	case "os":
		switch name {
		case "Getpid", "Getppid", "Environ", "Getenv", "LookupEnv", "Hostname", "Getwd":
			return "os." + name
		}
	case "runtime":
		switch name {
		case "NumGoroutine", "NumCPU", "Stack", "Caller", "Callers":
			return "runtime." + name
		}
	}
	return ""
}

func checkC09(c *Ctx) {
	w := c.W
	wGlobal = w
	m := w.runner()
	c.rule("C09.R1", "every call to a nondeterminism source in API-reachable module code is entailed by `the enclosing function's seed string parameter is empty`", 1)
	c.rule("C09.R2", "RNG provenance: the source is rand.New(rand.NewSource(v)) with v depending on the seed; it lives only in the RNG's field; dice/random/random_range are built from the RNG the constructor made from its rngSeed argument and are always the functions registered", 6)
	c.rule("C09.R3", "every range over a map in the module only stores under the loop key (commutative body): no append, concatenation, break, or value return in iteration order", 5)
	c.rule("C09.R5", "the checked dice and random_range closures refuse no argument of their domain (sides >= 1; lower <= upper): the conditions of their error returns, evaluated on a box of valid arguments, never hold", 2)
	c.rule("C09.R4", "ranges: IntBetween returns lower + Intn(upper-lower+1); dice = IntBetween(1, sides); random_range = IntBetween(a, b); random = Float64() unchanged", 4)
	if !m.ok(c, "C09") {
		return
	}
	// ----- R6: the only place that turns a seed string into a random source is reached from the constructor's seed argument only
	c.rule("C09.R6", "who may seed: functions of the module that can pick a random seed for an empty seed string (they reach a nondeterminism source under `seed == \"\"`, C09.R1) are called only by the runner's constructor, with its seed argument: no other path (a restore, a reset) re-creates the random source from a string that may be empty", 1)
	{
		rp := w.Pkg("internal/rng")
		nSeeders := 0
		if rp != nil {
			for _, g := range w.FuncsIn(rp) {
				if g.Decl == nil || g.Obj == nil || !g.Obj.Exported() || g.Decl.Recv != nil {
					continue
				}
				sig := g.Sig()
				if sig.Params().Len() != 1 || typeStr(sig.Params().At(0).Type()) != "string" || sig.Results().Len() == 0 || !strings.Contains(typeStr(sig.Results().At(0).Type()), "RNG") {
					continue
				}
				nSeeders++
				// every call site in the module
				for _, f := range w.Funcs {
					if f.Body == nil {
						continue
					}
					finfo := f.Pkg.TypesInfo
					walkNoLit(f.Body, func(n ast.Node) bool {
						call, ok := n.(*ast.CallExpr)
						if !ok {
							return true
						}
						if callee := calleeOf(finfo, call); callee == nil || callee != g.Obj {
							return true
						}
						okSite := w.rootOf(f) == m.ctor
						argOK := false
						if okSite && len(call.Args) == 1 {
							if id := identOf(call.Args[0]); id != nil {
								if v, isVar := finfo.Uses[id].(*types.Var); isVar {
									ps := m.ctor.Sig().Params()
									for i := 0; i < ps.Len(); i++ {
										if ps.At(i) == v {
											argOK = true
										}
									}
								}
							}
						}
						key := f.Name + "/calls " + g.Obj.Name()
						switch {
						case okSite && argOK:
							c.ob("C09.R6", key, w.Pos(call.Pos()), true, "called by the constructor with its seed argument")
						case okSite:
							c.ob("C09.R6", key, w.Pos(call.Pos()), false, "the constructor seeds the random source with "+exprStr(call.Args[0])+", not with its seed argument")
						default:
							c.ob("C09.R6", key, w.Pos(call.Pos()), false, g.Obj.Name()+" is called outside the runner's constructor (with "+shorten(exprStr(call.Args[0]), 60)+"): the random source is re-created from a string that may be empty — an empty seed picks a random one, so two runs with the same script, seed and choices diverge after this call")
						}
						return true
					})
				}
			}
		}
		if nSeeders == 0 {
			c.undecided("C09.R6", "no exported function of internal/rng taking a seed string and returning an RNG was found")
		}
	}
	// ----- R1
	roots := w.apiRoots()
	reach := w.reachModule(roots...)
	c.Extra["api_roots"] = len(roots)
	c.Extra["api_reachable_module_functions"] = len(reach)
	if len(roots) < 15 || len(reach) < 100 {
		c.undecided("C09.R1", "API reachability looks too small ("+itoa(len(roots))+" roots, "+itoa(len(reach))+" functions)")
	}
	var fns []*ssa.Function
	for f := range reach {
		fns = append(fns, f)
	}
	// package initialisers run before any API call: a package-level `var seed = maphash.MakeSeed()` is as reachable as it gets
	for _, p := range w.Pkgs {
		if strings.HasSuffix(p.PkgPath, "/internal/testutils") {
			continue
		}
		if sp := w.SSA().Package(p.Types); sp != nil {
			if initFn := sp.Func("init"); initFn != nil && !reach[initFn] {
				fns = append(fns, initFn)
				for g := range w.reachModule(initFn) {
					if !reach[g] {
						reach[g] = true
						fns = append(fns, g)
					}
				}
			}
		}
	}
	sort.Slice(fns, func(i, j int) bool { return fns[i].String() < fns[j].String() })
	nSrc := 0
	for _, f := range fns {
		if strings.HasSuffix(ssaFuncPkgPath(f), "/internal/parser") && f.Synthetic == "" && strings.Contains(f.String(), "yarnspinner") {
			continue // generated recognisers: no such calls, skipped for speed
		}
		c.Funcs[ssaFuncName(f)] = true
		for _, b := range f.Blocks {
			for _, in := range b.Instrs {
				call, ok := in.(ssa.CallInstruction)
				if !ok {
					continue
				}
				src := nondetSource(call.Common().StaticCallee())
				if src == "" {
					continue
				}
				nSrc++
				key := ssaFuncName(f) + "/" + src
				// AST function and call
				fn, astCall := w.astCallAt(call.Pos())
				if fn == nil || astCall == nil {
					c.ob("C09.R1", key, w.Pos(call.Pos()), false, "call to "+src+" on an API-reachable path (its syntax could not be located to look for a guard)")
					continue
				}
				e := w.ent(fn)
				proved, how := false, "no string parameter of "+fn.Name+" is entailed empty at the call"
				sig := fn.Sig()
				var emptyTests []*ast.BinaryExpr
				walkNoLit(w.rootOf(fn).Body, func(q ast.Node) bool {
					if b, ok := q.(*ast.BinaryExpr); ok && (b.Op == token.EQL || b.Op == token.NEQ) {
						if tv, ok := fn.Pkg.TypesInfo.Types[b.Y]; ok && tv.Value != nil && tv.Value.Kind() == constant.String && constant.StringVal(tv.Value) == "" {
							if id := identOf(b.X); id != nil {
								for i := 0; sig != nil && i < sig.Params().Len(); i++ {
									if fn.Pkg.TypesInfo.Uses[id] == sig.Params().At(i) {
										emptyTests = append(emptyTests, b)
									}
								}
							}
						}
					}
					return true
				})
				for _, t := range emptyTests {
					at := site{pos: astCall.Pos(), anc: astCall}
					goal := e.cond(keyCtx{e: e, s: &at}, t, 0)
					if t.Op == token.NEQ {
						goal = Not{goal}
					}
					if ok, h := e.Prove(astCall, goal); ok {
						proved, how = true, "entailed: "+exprStr(t.X)+" == \"\" ("+h+")"
						break
					}
				}
				c.ob("C09.R1", key, w.Pos(call.Pos()), proved, map[bool]string{true: "call to " + src + " only when no seed was given: " + how, false: "call to " + src + " reachable from the API with a non-empty seed: two runs with the same seed could differ (" + how + ")"}[proved])
			}
		}
	}
	if nSrc == 0 {
		c.obN("C09.R1", "module/no-source", "-", true, "no nondeterminism source is called in API-reachable module code", false)
	}
	// pointer formatting
	for _, f := range w.Funcs {
		if f.Body == nil || strings.HasSuffix(f.Pkg.PkgPath, "/internal/testutils") {
			continue
		}
		walkNoLit(f.Body, func(q ast.Node) bool {
			if bl, ok := q.(*ast.BasicLit); ok && bl.Kind == token.STRING && strings.Contains(bl.Value, "%p") {
				c.ob("C09.R1", f.Name+"/%p", w.Pos(bl.Pos()), false, "a format string prints a pointer value (%p): output would differ between runs")
			}
			return true
		})
	}

	// ----- R2
	c09R2(c, m)
	// ----- R3
	c09R3(c)
	// ----- R4
	c09R4(c)
	c09Domain(c)
}

// astCallAt finds the AST call expression whose Lparen is at pos, and its enclosing function.
func (w *World) astCallAt(pos token.Pos) (*Func, *ast.CallExpr) {
	for _, f := range w.Funcs {
		if f.Body == nil || pos < f.Body.Pos() || pos > f.Body.End() {
			continue
		}
		var found *ast.CallExpr
		walkNoLit(f.Body, func(q ast.Node) bool {
			if call, ok := q.(*ast.CallExpr); ok && call.Lparen == pos {
				found = call
			}
			return true
		})
		if found != nil {
			return f, found
		}
	}
	return nil, nil
}

func c09R2(c *Ctx, m *runnerModel) {
	w := c.W
	rp := w.Pkg("internal/rng")
	rinfo := rp.TypesInfo
	rngT := namedType(rp, "RNG")
	if rngT == nil {
		c.undecided("C09.R2", "type rng.RNG not found")
		return
	}
	fSrc := structFieldByType(rngT, "*rand.Rand")
	if fSrc == nil {
		c.undecided("C09.R2", "rng.RNG has no unique *rand.Rand field")
		return
	}
	// (a) the field is set only in the constructor's literal, from rand.New(rand.NewSource(v)), v depending on the seed parameter
	newRNG := w.DeclByName(rp, "NewRNG")
	if newRNG == nil {
		c.undecided("C09.R2", "rng.NewRNG not found")
		return
	}
	c.fn(newRNG)
	sf := w.SSAFunc(newRNG)
	srcOK, why := false, "the source field is never initialised"
	for _, b := range sf.Blocks {
		for _, in := range b.Instrs {
			st, ok := in.(*ssa.Store)
			if !ok || fieldOfAddr(st.Addr) != fSrc {
				continue
			}
			call, ok := st.Val.(*ssa.Call)
			if !ok || call.Call.StaticCallee() == nil || call.Call.StaticCallee().String() != "math/rand.New" {
				why = "the source is " + st.Val.String() + ", not rand.New(...)"
				continue
			}
			inner, ok := call.Call.Args[0].(*ssa.Call)
			if !ok || inner.Call.StaticCallee() == nil || inner.Call.StaticCallee().String() != "math/rand.NewSource" {
				// MakeInterface around NewSource result?
				if mi, ok2 := call.Call.Args[0].(*ssa.MakeInterface); ok2 {
					inner, ok = mi.X.(*ssa.Call)
				}
				if !ok || inner == nil || inner.Call.StaticCallee() == nil || inner.Call.StaticCallee().String() != "math/rand.NewSource" {
					why = "rand.New is not given rand.NewSource(...)"
					continue
				}
			}
			// the seed value depends on the seed parameter
			if dependsOnParam(inner.Call.Args[0], sf, map[ssa.Value]bool{}) {
				srcOK, why = true, "source = rand.New(rand.NewSource(v)), v computed from the seed parameter"
			} else {
				why = "the value given to rand.NewSource does not depend on the seed parameter: every seed would give the same (or an unrelated) sequence"
			}
		}
	}
	c.ob("C09.R2", newRNG.Name+"/source", w.Pos(newRNG.Decl.Pos()), srcOK, why)
	// the field is stored nowhere else; no *rand.Rand or *RNG in a package-level variable
	for _, f := range w.ModuleSSAFuncs() {
		for _, b := range f.Blocks {
			for _, in := range b.Instrs {
				st, ok := in.(*ssa.Store)
				if !ok {
					continue
				}
				if fieldOfAddr(st.Addr) == fSrc && f != sf {
					c.ob("C09.R2", ssaFuncName(f)+"/source-reassigned", w.Pos(st.Pos()), false, "the RNG's source is reassigned outside its constructor")
				}
				if g, ok := st.Addr.(*ssa.Global); ok && strings.HasPrefix(g.Pkg.Pkg.Path(), modPath) {
					ts := typeStr(st.Val.Type())
					if strings.Contains(ts, "rand.Rand") || strings.Contains(ts, "rng.RNG") {
						c.ob("C09.R2", ssaFuncName(f)+"/global-rng "+g.Name(), w.Pos(st.Pos()), false, "a random source is kept in the package-level variable "+g.Name()+": runners would share one sequence")
					}
				}
			}
		}
	}
	// the draw methods use that field
	for _, f := range w.FuncsIn(rp) {
		if f.Decl == nil || f.Decl.Recv == nil || f.Body == nil {
			continue
		}
		walkNoLit(f.Body, func(q ast.Node) bool {
			call, ok := q.(*ast.CallExpr)
			if !ok {
				return true
			}
			callee := calleeOf(rinfo, call)
			if callee == nil || callee.Pkg() == nil || callee.Pkg().Path() != "math/rand" {
				return true
			}
			if sig, ok := callee.Type().(*types.Signature); ok && sig.Recv() != nil {
				sel := unparen(call.Fun).(*ast.SelectorExpr)
				okF := lastField(rinfo, sel.X) == fSrc
				c.ob("C09.R2", f.Name+"/draw "+callee.Name(), w.Pos(call.Pos()), okF, map[bool]string{true: "draws from the RNG's own source field", false: "draws from " + exprStr(sel.X) + ", not from the RNG's seeded source"}[okF])
			}
			return true
		})
	}
	// (b) constructor: the RNG handed to the function storer is NewRNG(rngSeed)
	info := m.pkg.TypesInfo
	x := w.expander(m.ctor)
	var seedParam string
	csig := m.ctor.Sig()
	for i := 0; i < csig.Params().Len(); i++ {
		if typeStr(csig.Params().At(i).Type()) == "string" {
			seedParam = "$" + csig.Params().At(i).Name()
		}
	}
	var storerCtor *Func
	okArg, got := false, ""
	walkNoLit(m.ctor.Body, func(q ast.Node) bool {
		call, ok := q.(*ast.CallExpr)
		if !ok {
			return true
		}
		callee := calleeOf(info, call)
		if callee == nil {
			return true
		}
		if g := w.byObj[callee]; g != nil && g.Sig().Results().Len() == 1 && typeStr(g.Sig().Results().At(0).Type()) == "*ysgo.functionStorer" && len(call.Args) == 1 {
			storerCtor = g
			got = x.str(call.Args[0])
			okArg = got == modPath+"/internal/rng.NewRNG("+seedParam+")#0"
		}
		return true
	})
	c.ob("C09.R2", m.ctor.Name+"/rng-from-seed", w.Pos(m.ctor.Decl.Pos()), okArg, map[bool]string{true: "the function table is built with rng.NewRNG(rngSeed)", false: "the function table is built with " + got + ", not with the RNG made from the constructor's seed argument"}[okArg])
	if storerCtor == nil {
		c.undecided("C09.R2", "function storer constructor not found")
		return
	}
	c.fn(storerCtor)
	// the registry literal and its registration loop
	reg := findRegistry(w, storerCtor)
	if reg == nil {
		c.undecided("C09.R2", "the base function registry literal was not found")
		return
	}
	sx := w.expander(storerCtor)
	rngParam := "$" + storerCtor.Sig().Params().At(0).Name()
	for _, name := range []string{"dice", "random", "random_range"} {
		v := reg.entries[name]
		if v == nil {
			c.ob("C09.R2", storerCtor.Name+"/registered "+name, w.Pos(reg.lit.Pos()), false, "\""+name+"\" is not in the base function registry")
			continue
		}
		call, isCall := unparen(v).(*ast.CallExpr)
		okV := isCall && len(call.Args) == 1 && sx.str(call.Args[0]) == rngParam
		c.ob("C09.R2", storerCtor.Name+"/registered "+name, w.Pos(v.Pos()), okV, map[bool]string{true: "built from this storer's RNG", false: "\"" + name + "\" is registered as " + sx.str(v) + ", not as a function built from this runner's RNG"}[okV])
	}
	// every entry of the literal is registered unconditionally under its key
	c.ob("C09.R2", storerCtor.Name+"/registration-loop", w.Pos(reg.lit.Pos()), reg.loopOK, reg.loopWhy)
}

type fnRegistry struct {
	lit     *ast.CompositeLit
	entries map[string]ast.Expr
	loopOK  bool
	loopWhy string
}

// findRegistry: the map[string]any literal ranged over in f, whose entries are registered under their keys.
func findRegistry(w *World, f *Func) *fnRegistry {
	info := f.Pkg.TypesInfo
	var out *fnRegistry
	walkNoLit(f.Body, func(q ast.Node) bool {
		rs, ok := q.(*ast.RangeStmt)
		if !ok {
			return true
		}
		cl, ok := unparen(rs.X).(*ast.CompositeLit)
		if !ok {
			// a local bound once to the literal and only ranged over
			if id := identOf(rs.X); id != nil {
				if v, isVar := info.Uses[id].(*types.Var); isVar {
					x := w.expander(f)
					if rhs, idx, _, okd := x.def(v); okd && rhs != nil && idx < 0 {
						uses := 0
						walkNoLit(f.Body, func(u ast.Node) bool {
							if uid, ok := u.(*ast.Ident); ok && info.Uses[uid] == types.Object(v) {
								uses++
							}
							return true
						})
						if uses == 1 {
							cl, ok = unparen(rhs).(*ast.CompositeLit)
						}
					}
				}
			}
		}
		if !ok || cl == nil {
			return true
		}
		tv, ok := info.Types[cl]
		if !ok {
			return true
		}
		if _, isMap := tv.Type.Underlying().(*types.Map); !isMap {
			return true
		}
		r := &fnRegistry{lit: cl, entries: map[string]ast.Expr{}}
		for _, el := range cl.Elts {
			if kv, ok := el.(*ast.KeyValueExpr); ok {
				if kt, ok := info.Types[kv.Key]; ok && kt.Value != nil && kt.Value.Kind() == constant.String {
					r.entries[constant.StringVal(kt.Value)] = kv.Value
				}
			}
		}
		// loop body: the first statement registers (key, value) through a call; nothing skips it
		r.loopWhy = "the registration loop does not register every (name, function) pair unconditionally"
		kid, vid := identOf(rs.Key), identOf(rs.Value)
		if kid != nil && vid != nil && len(rs.Body.List) >= 1 {
			var call *ast.CallExpr
			switch s := rs.Body.List[0].(type) {
			case *ast.IfStmt:
				if as, ok := s.Init.(*ast.AssignStmt); ok && len(as.Rhs) == 1 {
					call, _ = as.Rhs[0].(*ast.CallExpr)
				}
			case *ast.ExprStmt:
				call, _ = s.X.(*ast.CallExpr)
			case *ast.AssignStmt:
				if len(s.Rhs) == 1 {
					call, _ = s.Rhs[0].(*ast.CallExpr)
				}
			}
			if call != nil && len(call.Args) == 2 {
				a0, a1 := identOf(call.Args[0]), identOf(call.Args[1])
				if a0 != nil && a1 != nil && info.Uses[a0] == info.Defs[kid] && info.Uses[a1] == info.Defs[vid] {
					r.loopOK = true
					r.loopWhy = "every entry of the literal is registered under its own name by the first statement of the loop"
				}
			}
		}
		out = r
		return true
	})
	return out
}

// dependsOnParam: the value is computed from a parameter of f (through calls to module functions, phis, conversions).
func dependsOnParam(v ssa.Value, f *ssa.Function, seen map[ssa.Value]bool) bool {
	if seen[v] {
		return false
	}
	seen[v] = true
	switch x := v.(type) {
	case *ssa.Parameter:
		return typeStr(x.Type()) == "string"
	case *ssa.Phi:
		for _, e := range x.Edges {
			if dependsOnParam(e, f, seen) {
				return true
			}
		}
	case *ssa.Extract:
		return dependsOnParam(x.Tuple, f, seen)
	case *ssa.Call:
		for _, a := range x.Call.Args {
			if dependsOnParam(a, f, seen) {
				return true
			}
		}
	case *ssa.Convert:
		return dependsOnParam(x.X, f, seen)
	case *ssa.ChangeType:
		return dependsOnParam(x.X, f, seen)
	case *ssa.BinOp:
		return dependsOnParam(x.X, f, seen) || dependsOnParam(x.Y, f, seen)
	case *ssa.UnOp:
		if x.Op == token.MUL {
			if a, ok := x.X.(*ssa.Alloc); ok {
				for _, ref := range *a.Referrers() {
					if st, ok := ref.(*ssa.Store); ok && st.Addr == ssa.Value(a) && dependsOnParam(st.Val, f, seen) {
						return true
					}
				}
			}
		}
		return dependsOnParam(x.X, f, seen)
	}
	return false
}

// ---------- R3 ----------

func c09R3(c *Ctx) {
	w := c.W
	n := 0
	for _, f := range w.Funcs {
		if f.Body == nil || strings.HasSuffix(f.Pkg.PkgPath, "/internal/testutils") || strings.HasSuffix(f.Pkg.PkgPath, "/internal/parser") {
			continue
		}
		info := f.Pkg.TypesInfo
		walkNoLit(f.Body, func(q ast.Node) bool {
			rs, ok := q.(*ast.RangeStmt)
			if !ok {
				return true
			}
			tv, ok := info.Types[rs.X]
			if !ok {
				return true
			}
			if _, isMap := tv.Type.Underlying().(*types.Map); !isMap {
				return true
			}
			n++
			c.fn(f)
			var keyObj types.Object
			if id := identOf(rs.Key); id != nil && id.Name != "_" {
				keyObj = info.Defs[id]
				if keyObj == nil {
					keyObj = info.Uses[id]
				}
			}
			why := commutativeBody(info, rs.Body.List, keyObj)
			c.ob("C09.R3", f.Name+"/range-over-map#"+itoa(n)+" "+exprStrShort(rs.X), w.Pos(rs.Pos()), why == "", map[bool]string{true: "the body only stores under the loop key (order of iteration cannot be observed)", false: "iteration order of a map can leak into the result: " + why}[why == ""])
			return true
		})
	}
}

func exprStrShort(e ast.Expr) string {
	s := exprStr(e)
	if len(s) > 40 {
		s = s[:37] + "..."
	}
	return s
}

// commutativeBody returns "" if the statements only perform stores keyed by key, guarded tests and error exits.
func commutativeBody(info *types.Info, list []ast.Stmt, key types.Object) string {
	return commutativeBodyK(info, list, map[types.Object]bool{key: true})
}

func commutativeBodyK(info *types.Info, list []ast.Stmt, keys map[types.Object]bool) string {
	usesKey := func(e ast.Expr) bool {
		id := identOf(e)
		return id != nil && info.Uses[id] != nil && keys[info.Uses[id]]
	}
	// a local of the iteration bound to a call-free expression (a copy of the key is the key)
	localDef := func(lhs []ast.Expr, rhs []ast.Expr, defs bool) bool {
		if len(lhs) != len(rhs) {
			return false
		}
		for i, l := range lhs {
			id := identOf(l)
			if id == nil || !callFree(rhs[i]) {
				return false
			}
			o := info.Defs[id]
			if o == nil {
				return false
			}
			if usesKey(rhs[i]) {
				keys[o] = true
			}
		}
		return true
	}
	for _, s := range list {
		switch s := s.(type) {
		case *ast.DeclStmt:
			gd, ok := s.Decl.(*ast.GenDecl)
			if !ok || gd.Tok != token.VAR {
				return "declaration inside the loop"
			}
			for _, sp := range gd.Specs {
				vs := sp.(*ast.ValueSpec)
				var lhs []ast.Expr
				for _, nm := range vs.Names {
					lhs = append(lhs, nm)
				}
				if len(vs.Values) > 0 && !localDef(lhs, vs.Values, true) {
					return "a local of the iteration is initialised by a call"
				}
			}
		case *ast.AssignStmt:
			if s.Tok == token.DEFINE {
				if localDef(s.Lhs, s.Rhs, true) {
					continue
				}
				return "a local of the iteration is initialised by a call"
			}
			// `_ = x` keeps a variable used
			if s.Tok == token.ASSIGN && len(s.Lhs) == 1 && identOf(s.Lhs[0]) != nil && identOf(s.Lhs[0]).Name == "_" && callFree(s.Rhs[0]) {
				continue
			}
			for _, l := range s.Lhs {
				ix, ok := unparen(l).(*ast.IndexExpr)
				if !ok || !usesKey(ix.Index) {
					return "assignment to " + exprStr(l) + " is not a store under the loop key"
				}
			}
			if s.Tok != token.ASSIGN {
				return "compound assignment " + s.Tok.String()
			}
		case *ast.ExprStmt:
			call, ok := s.X.(*ast.CallExpr)
			if !ok {
				return "expression statement"
			}
			if isBuiltin(info, call, "panic") {
				continue
			}
			if isBuiltin(info, call, "delete") && len(call.Args) == 2 && usesKey(call.Args[1]) {
				continue
			}
			if len(call.Args) == 0 || !usesKey(call.Args[0]) {
				return "call " + exprStrShort(call) + " is not keyed by the loop key"
			}
		case *ast.IfStmt:
			if s.Init != nil {
				as, ok := s.Init.(*ast.AssignStmt)
				if !ok || len(as.Rhs) != 1 {
					return "unrecognised if-initialiser"
				}
				if call, ok := as.Rhs[0].(*ast.CallExpr); ok {
					if len(call.Args) == 0 || !usesKey(call.Args[0]) {
						return "call " + exprStrShort(call) + " is not keyed by the loop key"
					}
				}
			}
			if why := commutativeBodyK(info, s.Body.List, keys); why != "" {
				return why
			}
			if s.Else != nil {
				switch e := s.Else.(type) {
				case *ast.BlockStmt:
					if why := commutativeBodyK(info, e.List, keys); why != "" {
						return why
					}
				case *ast.IfStmt:
					if why := commutativeBodyK(info, []ast.Stmt{e}, keys); why != "" {
						return why
					}
				}
			}
		case *ast.ReturnStmt:
			// only error exits: every result but the last is nil/zero
			for i, r := range s.Results {
				if i < len(s.Results)-1 && !isNilExpr(info, r) {
					if tv, ok := info.Types[r]; !ok || tv.Value == nil {
						return "a value is returned from inside the loop (which entry is seen first depends on iteration order)"
					}
				}
			}
			if len(s.Results) == 1 {
				if tv, ok := info.Types[s.Results[0]]; ok && typeStr(tv.Type) != "error" && tv.Value == nil {
					return "a value is returned from inside the loop (which entry is seen first depends on iteration order)"
				}
			}
		case *ast.SwitchStmt:
			if s.Init != nil || (s.Tag != nil && !callFree(s.Tag)) {
				return "switch with an initialiser or a call in its tag"
			}
			for _, cl := range s.Body.List {
				cc := cl.(*ast.CaseClause)
				for _, e := range cc.List {
					if !callFree(e) {
						return "a case of a switch calls a function"
					}
				}
				if why := commutativeBodyK(info, cc.Body, keys); why != "" {
					return why
				}
			}
		case *ast.BranchStmt:
			if s.Tok == token.BREAK {
				return "break inside a range over a map (the entries processed depend on iteration order)"
			}
		default:
			return "statement of kind " + strings.TrimPrefix(strings.TrimPrefix(typeName(s), "*ast."), "ast.")
		}
	}
	return ""
}

func typeName(v interface{}) string {
	switch v.(type) {
	case *ast.ForStmt:
		return "for"
	case *ast.RangeStmt:
		return "range"
	case *ast.SwitchStmt:
		return "switch"
	case *ast.IncDecStmt:
		return "inc/dec"
	case *ast.DeclStmt:
		return "declaration"
	case *ast.GoStmt:
		return "go"
	case *ast.SendStmt:
		return "send"
	}
	return "other"
}

// ---------- R4 ----------

// returnedLit: the function literal returned by f (its only return).
func returnedLit(w *World, f *Func) *Func {
	var lit *ast.FuncLit
	n := 0
	walkNoLit(f.Body, func(q ast.Node) bool {
		if r, ok := q.(*ast.ReturnStmt); ok && len(r.Results) >= 1 {
			n++
			lit, _ = unparen(r.Results[0]).(*ast.FuncLit)
		}
		return true
	})
	if n != 1 || lit == nil {
		return nil
	}
	return w.funcOf[lit]
}

// valueReturn: the first result of the literal's value-carrying return (nil error or single result).
func valueReturn(l *Func) ast.Expr {
	info := l.Pkg.TypesInfo
	var out ast.Expr
	n := 0
	walkNoLit(l.Body, func(q ast.Node) bool {
		r, ok := q.(*ast.ReturnStmt)
		if !ok || len(r.Results) == 0 {
			return true
		}
		if len(r.Results) == 2 && !isNilExpr(info, r.Results[1]) {
			return true // error return
		}
		n++
		out = r.Results[0]
		return true
	})
	if n != 1 {
		return nil
	}
	return out
}

func c09R4(c *Ctx) {
	w := c.W
	rp := w.Pkg("internal/rng")
	rinfo := rp.TypesInfo
	// IntBetween: the method with two int parameters returning int on *RNG
	var ib, fl *Func
	for _, f := range w.FuncsIn(rp) {
		if f.Decl == nil || f.Decl.Recv == nil {
			continue
		}
		sig := f.Sig()
		if sig.Params().Len() == 2 && sig.Results().Len() == 1 && typeStr(sig.Results().At(0).Type()) == "int" {
			ib = f
		}
		if sig.Params().Len() == 0 && sig.Results().Len() == 1 && typeStr(sig.Results().At(0).Type()) == "float64" {
			fl = f
		}
	}
	if ib == nil || fl == nil {
		c.undecided("C09.R4", "rng draw methods not found")
		return
	}
	c.fn(ib)
	c.fn(fl)
	e := w.ent(ib)
	k := keyCtx{e: e, s: &site{pos: ib.Body.End(), anc: ib.Body}}
	lower, upper := ib.Sig().Params().At(0), ib.Sig().Params().At(1)
	okIB, whyIB := false, "no return of the form lower + Intn(upper-lower+1)"
	walkNoLit(ib.Body, func(q ast.Node) bool {
		r, ok := q.(*ast.ReturnStmt)
		if !ok || len(r.Results) != 1 {
			return true
		}
		b, ok := unparen(r.Results[0]).(*ast.BinaryExpr)
		if !ok || b.Op != token.ADD {
			whyIB = "returns " + exprStr(r.Results[0])
			return true
		}
		for _, sides := range [][2]ast.Expr{{b.X, b.Y}, {b.Y, b.X}} {
			id := identOf(sides[0])
			call, isCall := unparen(sides[1]).(*ast.CallExpr)
			if id == nil || rinfo.Uses[id] != lower || !isCall || len(call.Args) != 1 {
				continue
			}
			callee := calleeOf(rinfo, call)
			if callee == nil || funcFullName(callee) != "(*math/rand.Rand).Intn" {
				whyIB = "the draw is " + exprStr(call.Fun) + ", not (*rand.Rand).Intn"
				continue
			}
			got := k.norm(call.Args[0])
			want := linForm{terms: map[string]int64{k.key(identFor(ib, upper)): 1, k.key(identFor(ib, lower)): -1}, c: 1}
			if got.String() == want.String() {
				okIB, whyIB = true, "returns lower + Intn(upper - lower + 1): in [lower, upper] by A4"
			} else {
				whyIB = "the draw is Intn(" + exprStr(call.Args[0]) + "), not Intn(upper-lower+1): the result is not uniform over [lower, upper] (an end is never or wrongly reached)"
			}
		}
		return true
	})
	c.ob("C09.R4", ib.Name+"/range", w.Pos(ib.Decl.Pos()), okIB, whyIB)
	// Float returns Float64() unchanged
	fx := w.expander(fl)
	okFl := false
	gotFl := ""
	walkNoLit(fl.Body, func(q ast.Node) bool {
		if r, ok := q.(*ast.ReturnStmt); ok && len(r.Results) == 1 {
			gotFl = fx.str(r.Results[0])
			okFl = strings.HasSuffix(gotFl, ".Float64()") && strings.HasPrefix(gotFl, "$"+recvName(fl)+".")
		}
		return true
	})
	c.ob("C09.R4", fl.Name+"/unit-interval", w.Pos(fl.Decl.Pos()), okFl, map[bool]string{true: "returns Float64() of the source unchanged: in [0,1) by A4", false: "returns " + gotFl + ", not the source's Float64() unchanged"}[okFl])

	// the registered functions
	m := w.runner()
	var storerCtor *Func
	for _, f := range w.FuncsIn(m.pkg) {
		if f.Decl != nil && f.Sig().Results().Len() == 1 && typeStr(f.Sig().Results().At(0).Type()) == "*ysgo.functionStorer" {
			storerCtor = f
		}
	}
	if storerCtor == nil {
		c.undecided("C09.R4", "function storer constructor not found")
		return
	}
	reg := findRegistry(w, storerCtor)
	if reg == nil {
		c.undecided("C09.R4", "registry not found")
		return
	}
	info := m.pkg.TypesInfo
	for _, spec := range []struct {
		name string
		want func(params []string) string
	}{
		{"dice", func(p []string) string { return "IntBetween(1," + p[0] + ")" }},
		{"random_range", func(p []string) string { return "IntBetween(" + p[0] + "," + p[1] + ")" }},
		{"random", func(p []string) string { return "Float()" }},
	} {
		v := reg.entries[spec.name]
		call, _ := unparen(v).(*ast.CallExpr)
		if call == nil {
			c.ob("C09.R4", "builtin "+spec.name, w.Pos(reg.lit.Pos()), false, "\""+spec.name+"\" is not registered as a call building a closure")
			continue
		}
		callee := calleeOf(info, call)
		var mk *Func
		if callee != nil {
			mk = w.byObj[callee]
		}
		got, pos := resolveDraw(w, mk, 0)
		var params []string
		if mk != nil {
			if l := returnedLit(w, mk); l != nil {
				for i := 0; i < l.Sig().Params().Len(); i++ {
					params = append(params, "p"+itoa(i))
				}
			}
		}
		want := ""
		if len(params) >= strings.Count(spec.want([]string{"", "", ""}), ",")+0 {
			for len(params) < 2 {
				params = append(params, "?")
			}
			want = spec.want(params)
		}
		okD := got == want
		c.ob("C09.R4", "builtin "+spec.name, pos, okD, map[bool]string{true: "\"" + spec.name + "\" returns rng." + got + " unchanged", false: "\"" + spec.name + "\" returns " + got + " (want rng." + want + " unchanged)"}[okD])
	}
}

func identFor(f *Func, v *types.Var) ast.Expr {
	// find a use of v in f to build keys from real syntax
	var out ast.Expr
	ast.Inspect(f.Body, func(q ast.Node) bool {
		if id, ok := q.(*ast.Ident); ok && f.Pkg.TypesInfo.Uses[id] == v && out == nil {
			out = id
		}
		return true
	})
	return out
}

// resolveDraw follows a closure-building function to the rng draw it returns; parameters are rendered p0, p1.
func resolveDraw(w *World, mk *Func, depth int) (string, string) {
	if mk == nil || depth > 3 {
		return "?", "-"
	}
	l := returnedLit(w, mk)
	if l == nil {
		return "?{" + mk.Name + " does not return a single function literal}", w.Pos(mk.Decl.Pos())
	}
	info := l.Pkg.TypesInfo
	ret := valueReturn(l)
	if ret == nil {
		return "?{no single value return}", w.Pos(l.Node().Pos())
	}
	pname := map[types.Object]string{}
	for i := 0; i < l.Sig().Params().Len(); i++ {
		pname[l.Sig().Params().At(i)] = "p" + itoa(i)
	}
	arg := func(e ast.Expr) string {
		if tv, ok := info.Types[e]; ok && tv.Value != nil {
			return tv.Value.ExactString()
		}
		// int(p): the draw is over integers; a parameter converted to int is that parameter as far as ranges go
		if cv, ok := unparen(e).(*ast.CallExpr); ok && len(cv.Args) == 1 {
			if tv, ok := info.Types[cv.Fun]; ok && tv.IsType() && isIntType(tv.Type) {
				e = cv.Args[0]
			}
		}
		if id := identOf(e); id != nil {
			if s, ok := pname[info.Uses[id]]; ok {
				return s
			}
		}
		return "?{" + exprStr(e) + "}"
	}
	call, ok := unparen(ret).(*ast.CallExpr)
	if !ok {
		return "?{" + exprStr(ret) + "}", w.Pos(ret.Pos())
	}
	// rng method
	if callee := calleeOf(info, call); callee != nil && callee.Pkg() != nil && callee.Pkg().Path() == modPath+"/internal/rng" {
		var args []string
		for _, a := range call.Args {
			args = append(args, arg(a))
		}
		return callee.Name() + "(" + strings.Join(args, ",") + ")", w.Pos(call.Pos())
	}
	// a local bound to another closure builder, called with the parameters in order
	if id := identOf(call.Fun); id != nil {
		if obj, ok := info.Uses[id].(*types.Var); ok {
			x := w.expander(mk)
			if rhs, idx, _, ok := x.def(obj); ok && rhs != nil && idx < 0 {
				if inner, ok := unparen(rhs).(*ast.CallExpr); ok {
					if cal := calleeOf(info, inner); cal != nil {
						if g := w.byObj[cal]; g != nil {
							inOrder := len(call.Args) == l.Sig().Params().Len()
							for i, a := range call.Args {
								if arg(a) != "p"+itoa(i) {
									inOrder = false
								}
							}
							if !inOrder {
								return "?{" + exprStr(call) + " does not pass its parameters through in order}", w.Pos(call.Pos())
							}
							return resolveDraw(w, g, depth+1)
						}
					}
				}
			}
		}
	}
	return "?{" + exprStr(ret) + "}", w.Pos(ret.Pos())
}
