#!/bin/bash
# norm_sanity.sh <patch dirs...>: sanity check of the NORM pass itself (not a property check): applies each refactoring in
# a scratch worktree outside /repo and /verif, replaces the sources by what NORM rewrites them to, and runs the
# repository's own test suite on the rewritten sources. A failure means the inliner changed behaviour.
export GOFLAGS=-mod=mod GOPROXY=off GOSUMDB=off GOTOOLCHAIN=local
wt=/tmp/wt/normsanity
git -C /repo worktree remove --force $wt 2>/dev/null
git -C /repo worktree add -q --detach $wt HEAD
for d in "$@"; do
  id=$(basename $d)
  cd $wt && git checkout -q -- . && git clean -fdq
  git apply $d/patch.diff 2>/dev/null || { echo "$id: patch does not apply"; continue; }
  out=$(/verif/bin/ysgocheck -norm-dump -repo $wt 2>&1)
  n=$(echo "$out" | python3 -c "
import sys,re,os
txt=sys.stdin.read()
parts=re.split(r'^==== (.+)\n', txt, flags=re.M)
n=0
for i in range(1,len(parts),2):
    path=parts[i].strip(); content=parts[i+1]
    open(os.path.join('$wt',path),'w').write(content)
    n+=1
print(n)
")
  if [ "$n" = "0" ]; then echo "$id: nothing rewritten"; continue; fi
  if ! go build ./... 2>/tmp/normsanity.err; then echo "$id: REWRITTEN TREE DOES NOT BUILD: $(head -2 /tmp/normsanity.err | tr '\n' ' ')"; continue; fi
  r=ok; go test -vet=off -count=1 ./... >/tmp/normsanity.out 2>&1 || { go test -vet=off -count=1 ./... >/tmp/normsanity.out 2>&1 || r="TESTS FAIL: $(grep -m3 -- '--- FAIL' /tmp/normsanity.out | tr '\n' ' ')"; }
  echo "$id: $n file(s) rewritten, suite on rewritten sources: $r"
done
cd /; git -C /repo worktree remove --force $wt
