#!/bin/bash
# run_seeds_parallel.sh <dir-of-seed-dirs> [ids...]: applies each seeded change in a scratch worktree (never /repo), runs every property
# on one load (-allprops) and prints "<id> own=<rules of its own property> others=<...>". Four worktrees in parallel.
export GOFLAGS=-mod=mod GOPROXY=off GOSUMDB=off GOTOOLCHAIN=local
base=$1; shift
ids="$@"; [ -z "$ids" ] && ids=$(ls $base)
mkdir -p /tmp/wt
i=0
for id in $ids; do echo $id; done > /tmp/wt/ids.all
split -n l/4 -d /tmp/wt/ids.all /tmp/wt/ids.part
for k in 0 1 2 3; do
 (
  wt=/tmp/wt/par$k
  [ -d $wt ] || git -C /repo worktree add -q --detach $wt HEAD
  git -C $wt checkout -q --detach $(git -C /repo rev-parse HEAD) 2>/dev/null
  for id in $(cat /tmp/wt/ids.part0$k 2>/dev/null); do
    git -C $wt checkout -q -- . ; git -C $wt clean -fdq
    prop=$(python3 -c "import json;print(json.load(open('$base/$id/meta.json')).get('property','-'))")
    if ! git -C $wt apply $base/$id/patch.diff 2>/dev/null; then echo "$id PATCH-DOES-NOT-APPLY"; continue; fi
    out=$(${BIN:-/verif/bin/ysgocheck} -repo $wt -allprops -noevidence 2>&1 | tail -1)
    python3 - "$id" "$prop" "$out" <<'PY'
import json,sys
id,prop,out=sys.argv[1:4]
try: d=json.loads(out)
except Exception: print(id,"ERROR",out[:200]); sys.exit()
own=d.get(prop); others={k:v for k,v in d.items() if k!=prop}
print(id, "own="+("|".join(own) if own else "SILENT"), "others="+json.dumps(others))
PY
  done
  git -C $wt checkout -q -- . ; git -C $wt clean -fdq
 ) &
done
wait
