#!/bin/bash
# run_preserving.sh <dir-with-patch.diff>...: applies a behaviour-preserving refactoring to /repo, runs EVERY registered
# check, and undoes the change straight afterwards. Any exit != 0 is a false alarm (or an undecided anchor loss) to triage.
cd /verif
restore() { git -C /repo checkout -q -- . ; git -C /repo clean -fdq; }
trap restore EXIT
if [ -n "$(git -C /repo status --porcelain)" ]; then echo "/repo is not clean"; exit 2; fi
registered=$(./bin/ysgocheck -list)
for d in "$@"; do
  id=$(basename $d)
  git -C /repo apply $d/patch.diff || { echo "$id: patch does not apply"; restore; continue; }
  line="$id"
  for p in $registered; do
    out=$(./bin/ysgocheck -prop $p -noevidence -json 2>&1); rc=$?
    [ $rc -eq 0 ] && continue
    rules=$(echo "$out" | grep '^{"property"' | python3 -c "import json,sys; d=json.loads(sys.stdin.readline() or '{}'); print(','.join(sorted(set(o['rule']+'@'+o['construct'][:70] for o in d.get('failed',[])))) + ('|UNDECIDED:'+';'.join(d.get('undecided',[]))[:300] if d.get('undecided') else ''))" 2>/dev/null)
    line="$line
    $p:exit=$rc[$rules]"
  done
  echo "$line"
  restore
done
