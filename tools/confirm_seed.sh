#!/bin/bash
# confirm_seed.sh <seed dir> [worktree]: confirms a seeded change in a scratch worktree:
#   suite passes with the change (2 runs), demo fails with it, demo passes without it. Prints one TSV line.
export GOFLAGS=-mod=mod GOPROXY=off GOSUMDB=off GOTOOLCHAIN=local
d=$1; wt=${2:-/tmp/wt/confirm}
id=$(basename $d)
[ -d $wt ] || git -C /repo worktree add -q --detach $wt HEAD
cd $wt && git checkout -q -- . && git clean -fdq
pkgdir=$(python3 -c "import json;print(json.load(open('$d/meta.json')).get('demo_package_dir','.'))")
demorun=$(python3 -c "import json;print(json.load(open('$d/meta.json')).get('demo_run',''))")
if ! git apply --check $d/patch.diff 2>/dev/null; then echo -e "$id\tPATCH-DOES-NOT-APPLY"; exit 0; fi
git apply $d/patch.diff
files=$(git diff --name-only | tr '\n' ' ')
if ! go build ./... 2>/dev/null; then echo -e "$id\tDOES-NOT-BUILD\t$files"; git checkout -q -- .; exit 0; fi
suite=ok
for i in 1 2; do go test -vet=off -count=1 ./... >/dev/null 2>&1 || { go test -vet=off -count=1 ./... >/dev/null 2>&1 || suite=FAIL; }; done
cp $d/zz_demo_test.go $pkgdir/zz_demo_test.go 2>/dev/null || cp $d/zz_demo_test.go.txt $pkgdir/zz_demo_test.go
race=""; echo "$demorun" | grep -q -- "-race" && race="-race"
( cd $pkgdir && timeout 300 go test $race -vet=off -count=1 -run 'Demo|ZZ' . >/tmp/confirm_$id.with.log 2>&1 ) && with=PASS || with=FAIL
git apply -R $d/patch.diff
( cd $pkgdir && timeout 300 go test $race -vet=off -count=1 -run 'Demo|ZZ' . >/tmp/confirm_$id.without.log 2>&1 ) && without=PASS || without=FAIL
rm -f $pkgdir/zz_demo_test.go; git checkout -q -- . ; git clean -fdq
echo -e "$id\tsuite=$suite\tdemo_with=$with\tdemo_without=$without\t$files"
