#!/usr/bin/env python3
"""Mutation sweep (development aid, not a check): for every single-site syntactic mutant of the hand-written sources,
asks every check whether it fires (through an overlay, /repo is not touched). Mutants that no check flags are listed for
review; tools/sweep_tests.py then filters out those the repository's own suite kills.
usage: sweep.py [out.jsonl] [jobs]"""
import json, subprocess, sys, os, tempfile, concurrent.futures as cf

out = sys.argv[1] if len(sys.argv) > 1 else '/tmp/sweep.jsonl'
jobs = int(sys.argv[2]) if len(sys.argv) > 2 else 14
muts = [json.loads(l) for l in subprocess.run(['/verif/bin/ysgocheck', '-mutgen'], capture_output=True, text=True).stdout.splitlines() if l.startswith('{')]
tmpdir = tempfile.mkdtemp(prefix='sweep-')
srcs = {}

def run(i_m):
    i, m = i_m
    src = srcs.setdefault(m['file'], open(m['file'], 'rb').read())
    orig = src[m['start']:m['end']]
    repl = (b'!(' + orig + b')') if m['repl'] == '@NEG@' else m['repl'].encode()
    new = src[:m['start']] + repl + src[m['end']:]
    path = os.path.join(tmpdir, f'm{i}_' + os.path.basename(m['file']))
    open(path, 'wb').write(new)
    try:
        p = subprocess.run(['/verif/bin/ysgocheck', '-allprops', '-overlay', f"{m['file']}={path}"], capture_output=True, text=True, timeout=300)
        line = [l for l in p.stdout.splitlines() if l.startswith('{')]
        res = json.loads(line[-1]) if line else {'error': 'no output'}
    except Exception as e:
        res = {'error': str(e)}
    os.unlink(path)
    m = dict(m); m['id'] = i; m['result'] = res
    return m

with cf.ThreadPoolExecutor(max_workers=jobs) as ex, open(out, 'w') as f:
    n = 0
    for m in ex.map(run, list(enumerate(muts))):
        f.write(json.dumps(m) + '\n'); f.flush()
        n += 1
        if n % 100 == 0:
            print(n, 'of', len(muts), file=sys.stderr)
res = [json.loads(l) for l in open(out)]
err = [m for m in res if 'error' in m['result']]
flag = [m for m in res if 'error' not in m['result'] and any(isinstance(v, list) for v in m['result'].values())]
und = [m for m in res if 'error' not in m['result'] and m not in flag and m['result']]
silent = [m for m in res if not m['result']]
print(f"mutants {len(res)}: do not type-check {len(err)}, flagged by a rule {len(flag)}, undecided only {len(und)}, silent {len(silent)}")
