#!/bin/bash
# runs the pinned suite N times (default 3) in /repo (or $1) and prints pass/fail per run
export GOFLAGS=-mod=mod GOPROXY=off GOSUMDB=off GOTOOLCHAIN=local
dir=${1:-/repo}; n=${2:-3}
cd "$dir" || exit 2
rc=0
for i in $(seq 1 $n); do
  out=$(go test -vet=off -count=1 ./... 2>&1) || { echo "RUN $i FAIL"; echo "$out" | grep -v "^ok\|no test files" | head -40; rc=1; continue; }
  echo "RUN $i ok"
done
exit $rc
