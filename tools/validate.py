#!/usr/bin/env python3-vt
import json, jsonschema, glob, sys
jsonschema.validate(json.load(open('/verif/MANIFEST.json')), json.load(open('/root/.vp/MANIFEST.schema.json')))
es = json.load(open('/root/.vp/EVIDENCE.schema.json'))
n = 0
for f in sorted(glob.glob('/verif/evidence/C??.json')):
    jsonschema.validate(json.load(open(f)), es); n += 1
print("manifest ok; evidence files valid:", n)
