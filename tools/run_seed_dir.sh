#!/bin/bash
# run_seed_dir.sh <dir-with-patch.diff+meta.json>...: applies a breaking change to /repo, runs the check of its own property
# (printing the rules that fire) and every other check that fires, and restores /repo.
cd /verif
restore() { git -C /repo checkout -q -- . ; git -C /repo clean -fdq; }
trap restore EXIT
if [ -n "$(git -C /repo status --porcelain)" ]; then echo "/repo is not clean"; exit 2; fi
registered=$(./bin/ysgocheck -list)
for d in "$@"; do
  id=$(basename $d)
  prop=$(python3 -c "import json;print(json.load(open('$d/meta.json'))['property'])")
  git -C /repo apply $d/patch.diff || { echo "$id: patch does not apply"; restore; continue; }
  line="$id"
  for p in $registered; do
    out=$(./bin/ysgocheck -prop $p -noevidence -json 2>&1); rc=$?
    [ $rc -eq 0 ] && [ "$p" != "$prop" ] && continue
    rules=$(echo "$out" | grep '^{"property"' | python3 -c "import json,sys; d=json.loads(sys.stdin.readline() or '{}'); print(','.join(sorted(set(o['rule'] for o in d.get('failed',[])))) + ('|UNDECIDED:'+';'.join(d.get('undecided',[]))[:120] if d.get('undecided') else ''))" 2>/dev/null)
    mark=""; [ "$p" = "$prop" ] && mark="*"
    line="$line  $mark$p:exit=$rc[$rules]"
  done
  echo "$line"
  restore
done
