#!/usr/bin/env python3
"""Second stage of the mutation sweep (development aid): runs the repository's own test suite on the mutants that no
check flagged, in scratch worktrees outside /repo and /verif, to separate the ones the tests kill (not the checks' job)
from the ones that survive both — the review list.
usage: sweep_tests.py in.jsonl out.jsonl [workers]"""
import json, subprocess, sys, os, concurrent.futures as cf, threading, queue

inp, out = sys.argv[1], sys.argv[2]
workers = int(sys.argv[3]) if len(sys.argv) > 3 else 5
env = dict(os.environ, GOFLAGS='-mod=mod', GOPROXY='off', GOSUMDB='off', GOTOOLCHAIN='local')
res = [json.loads(l) for l in open(inp)]
silent = [m for m in res if not m['result']]
wts = queue.Queue()
for i in range(workers):
    wt = f'/tmp/wt/sweep{i}'
    subprocess.run(['git', '-C', '/repo', 'worktree', 'remove', '--force', wt], capture_output=True)
    subprocess.run(['git', '-C', '/repo', 'worktree', 'add', '-q', '--detach', wt, 'HEAD'], check=True)
    wts.put(wt)

def run(m):
    wt = wts.get()
    try:
        rel = os.path.relpath(m['file'], '/repo')
        path = os.path.join(wt, rel)
        src = open(path, 'rb').read()
        orig = src[m['start']:m['end']]
        repl = (b'!(' + orig + b')') if m['repl'] == '@NEG@' else m['repl'].encode()
        open(path, 'wb').write(src[:m['start']] + repl + src[m['end']:])
        pkgdir = './' + os.path.dirname(rel) + '/...' if os.path.dirname(rel) else './...'
        verdict = 'survives'
        for attempt in range(2):
            p = subprocess.run(['go', 'test', '-vet=off', '-count=1', './...'], cwd=wt, env=env, capture_output=True, text=True, timeout=900)
            if p.returncode == 0:
                verdict = 'survives'; break
            verdict = 'killed'
            if 'TestCommandStorer' not in p.stdout:
                break
        open(path, 'wb').write(src)
        m = dict(m); m['tests'] = verdict
        return m
    except Exception as e:
        subprocess.run(['git', '-C', wt, 'checkout', '-q', '--', '.'])
        m = dict(m); m['tests'] = 'error ' + str(e)[:80]
        return m
    finally:
        wts.put(wt)

with cf.ThreadPoolExecutor(max_workers=workers) as ex, open(out, 'w') as f:
    n = 0
    for m in ex.map(run, silent):
        f.write(json.dumps(m) + '\n'); f.flush()
        n += 1
        if n % 25 == 0:
            print(n, 'of', len(silent), file=sys.stderr)
for i in range(workers):
    subprocess.run(['git', '-C', '/repo', 'worktree', 'remove', '--force', f'/tmp/wt/sweep{i}'], capture_output=True)
r = [json.loads(l) for l in open(out)]
print('silent', len(r), 'killed by tests', sum(1 for m in r if m['tests'] == 'killed'), 'survive', sum(1 for m in r if m['tests'] == 'survives'))
