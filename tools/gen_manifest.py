#!/usr/bin/env python3
"""Regenerates /verif/MANIFEST.json from the table below and the list of properties the checker registers."""
import json, subprocess, sys

CHECKS = json.load(open('/verif/tools/checks.json'))
props = [json.loads(l)['id'] for l in open('/verif/properties.jsonl')]
registered = subprocess.run(['/verif/bin/ysgocheck', '-list'], capture_output=True, text=True).stdout.split()

ENV = "GOFLAGS=-mod=vendor GOPROXY=off GOSUMDB=off GOTOOLCHAIN=local GOWORK=off"
manifest = {
    "version": 1,
    "setup_cmd": f"cd /verif/checker && {ENV} go build -o /verif/bin/ysgocheck . && /verif/bin/ysgocheck -list",
    "hooks": {
        "guard": "verif",
        "enable": "none needed: static analysis reads /repo's working tree as it is; no instrumentation exists, the tag 'verif' is reserved and unused",
        "baseline_off_cmd": "cd /repo && GOFLAGS=-mod=mod GOPROXY=off GOSUMDB=off GOTOOLCHAIN=local go test -vet=off -count=1 ./...",
        "source_commits": [],
        "add_only": True,
    },
    "engines": [{
        "name": "ysgocheck",
        "path": "/verif/checker",
        "serves_properties": [p for p in props if p in registered and p in CHECKS],
        "kind_free_text": "repository-specific static analyser in Go (go/packages + go/types + go/cfg + go/ssa from golang.org/x/tools v0.29.0, vendored): path-event automata on control-flow graphs, guard entailment, SSA provenance, table agreement, the compiler's bounds-check-elimination report; /repo is never executed",
    }],
    "checks": [],
    "not_applicable": [],
    "notes": "All checks decide structural clauses of the properties from /repo's current source (see DESIGN.md section 3 for what each rule decides and what it does not). Exit 0 = every obligation discharged; exit 1 + VIOLATION line = an obligation failed (replay file lists rule, construct, file:line); exit 2 = cannot decide (load/type error, lost anchor, instance count below the hand-confirmed minimum) - never reported as holding. Genuine defects found on the pinned tree were repaired by 'fix:' commits, listed in /verif/known_findings.txt.",
}
for p in props:
    if p in CHECKS and p in registered:
        c = CHECKS[p]
        manifest["checks"].append({
            "property_id": p,
            "quick_cmd": f"./bin/ysgocheck -prop {p} -tier quick",
            "thorough_cmd": f"./bin/ysgocheck -prop {p} -tier thorough",
            "evidence_file": f"/verif/evidence/{p}.json",
            "replay_cmd_template": f"./bin/ysgocheck -prop {p} -noevidence -replay {{path}}",
            "engine": "ysgocheck",
            "level_claimed": {"category": c.get("level", "other"), "text": c["text"], "design_ref": c.get("design_ref", f"DESIGN.md section 3, {p}")},
            "level_note": c["note"],
            "technique": c["technique"],
        })
    else:
        reason = CHECKS.get(p, {}).get("na") or CHECKS.get("_na", {}).get(p) or "check not built yet in this session (see DESIGN.md section 7 for the build order)"
        manifest["not_applicable"].append({"property_id": p, "reason": reason})
json.dump(manifest, open('/verif/MANIFEST.json', 'w'), indent=1)
print("checks:", [c["property_id"] for c in manifest["checks"]], "n/a:", [c["property_id"] for c in manifest["not_applicable"]])
