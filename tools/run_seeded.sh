#!/bin/bash
# run_seeded.sh [ids...]: applies each seeded change to /repo (git apply), runs the check of its property
# (and, with ALL=1, every registered check), and undoes the change straight afterwards. Never writes evidence.
cd /verif
ids="$@"; [ -z "$ids" ] && ids=$(ls seeded)
restore() { git -C /repo checkout -q -- . ; git -C /repo clean -fdq; }
trap restore EXIT
if [ -n "$(git -C /repo status --porcelain)" ]; then echo "/repo is not clean"; exit 2; fi
registered=$(./bin/ysgocheck -list)
for id in $ids; do
  prop=$(python3 -c "import json;print(json.load(open('seeded/$id/meta.json'))['property'])")
  git -C /repo apply /verif/seeded/$id/patch.diff || { echo "$id: patch does not apply"; restore; continue; }
  props=$prop; [ -n "$ALL" ] && props=$registered
  line="$id"
  for p in $props; do
    echo " $registered " | grep -q " $p " || { line="$line  $p:not-built"; continue; }
    out=$(./bin/ysgocheck -prop $p -noevidence -json 2>&1); rc=$?
    rules=$(echo "$out" | grep '^{"property"' | python3 -c "import json,sys; d=json.loads(sys.stdin.readline() or '{}'); print(','.join(sorted(set(o['rule'] for o in d.get('failed',[])))) + ('|UNDECIDED:'+';'.join(d.get('undecided',[]))[:80] if d.get('undecided') else ''))" 2>/dev/null)
    if [ -n "$ALL" ] && [ $rc -eq 0 ] && [ "$p" != "$prop" ]; then continue; fi
    line="$line  $p:exit=$rc[$rules]"
  done
  echo "$line"
  restore
done
